import Ubx.Proofs.WalkSpec
import Ubx.Proofs.Message
import Ubx.Proofs.Assigns
/-!
# C02 — parsed attributes are exactly the field values the definition prescribes

`specItems` (Model/Spec.lean) computes the attribute environment directly from a *value tree*: every attribute /
bitfield is decoded from exactly its own bytes, group members get the index of their repetition appended
(`idx ++ [i]`, rendered `_01`, `_02`, … and `_01_01` … for nested groups), the number of repetitions is the constant,
the count attribute's value, or — variable by size — however many the payload holds. The theorems say the walker,
run on the laid-out bytes at any offset, with any trailing bytes, computes exactly that, for both bitfield views,
every repeat count and any nesting depth. What remains outside (named `…_partial` below): `CH` attributes in
non-sole position (excluded by grammar rule W8), and the CFG-VALGET/VALSET key/value walk (C14).
-/
namespace Ubx

/-- the walk over a whole definition on a payload laid out from a value tree -/
theorem C02_walk_is_spec (c : WCtx) (hp : c.hasPayload = true) (hcv : c.cfgval = false) (idx : List Nat)
    (d : List Item) (vts : List VT) (pre post : Bytes) (env env' : Env)
    (hsh : shapeItems d vts post = true) (hs : specItems c idx d vts env = .ok env') :
    wItems c idx d ⟨pre.length, pre ++ encItems vts ++ post, env⟩
      = .ok ⟨pre.length + (encItems vts).length, pre ++ encItems vts ++ post, env'⟩ :=
  wItems_spec c hp hcv idx d vts pre post env env' hsh hs

/-- … hence for the message `UBXMessage(cls, id, mode, payload=…)` / `UBXReader.parse` builds: whenever the
    definition lookup (including the variant selector) returns `d` and the payload is the layout of a value tree
    of `d`'s shape, the message's attributes are exactly the specified ones, in the specified order -/
theorem C02_message_attrs_partial (ctx : Ctx) (cls id : Bytes) (mode : Mode) (bf : Bool) (d : Defn) (vts : List VT) (env' : Env)
    (hd : getDict ctx cls id mode (.payload (encItems vts)) = .ok d)
    (hcv : (walkCtx ctx cls id mode bf (.payload (encItems vts))).cfgval = false)
    (hsh : shapeItems d vts [] = true)
    (hs : specItems (walkCtx ctx cls id mode bf (.payload (encItems vts))) [] d vts [] = .ok env')
    (hlen : (encItems vts).length < 65536) :
    ∃ m, construct ctx cls id mode.toNat bf (.payload (encItems vts)) = .ok m ∧ m.env = env' ∧
      m.payload = some (encItems vts) ∧ m.mode = mode := by
  have hw := wItems_spec (walkCtx ctx cls id mode bf (.payload (encItems vts))) (by simp [walkCtx, kwPayload?]) hcv []
    d vts [] [] [] env' hsh hs
  simp only [List.length_nil, List.nil_append, List.append_nil, Nat.zero_add] at hw
  have hmode : Mode.ofNat? mode.toNat = some mode := by cases mode <;> rfl
  unfold construct
  simp only [hmode, walkFor, hd, kwPayload?, Option.getD_some, hw, lenChecksum, hlen, if_true]
  exact ⟨_, rfl, rfl, rfl, rfl⟩

/-- **exactly the attributes the definition names, in payload order, each with the decoded value**: for a definition
    without `_HP` parts whose names are new, pairwise distinct and settable (grammar rules W5/W6), the walk over the
    laid-out payload ends with the environment extended by precisely `assignsItems`: the list, in payload order, of
    (name with `_NN` indices, value decoded from the field's own bytes) -/
theorem C02_attrs_in_payload_order (c : WCtx) (hp : c.hasPayload = true) (hcv : c.cfgval = false)
    (d : List Item) (vts : List VT) (pre post : Bytes) (env env' : Env) (l : List (AName × PyVal))
    (hsh : shapeItems d vts post = true) (hs : specItems c [] d vts env = .ok env')
    (hn : noHPL d = true) (hfl : flagsOKL d = true)
    (hl : assignsItems c.parsebf [] d vts = .ok l)
    (hnd : (env.map (·.1) ++ l.map (·.1)).Nodup) (hset : ∀ x ∈ l, settable c x.1 = true) :
    wItems c [] d ⟨pre.length, pre ++ encItems vts ++ post, env⟩
      = .ok ⟨pre.length + (encItems vts).length, pre ++ encItems vts ++ post, env ++ l⟩ := by
  obtain ⟨l', h1, h2⟩ := specItems_assigns c [] d vts env env' hn hfl hs
  rw [hl] at h1; cases h1
  rw [applyAll_fresh c env l hnd hset] at h2; cases h2
  exact wItems_spec c hp hcv [] d vts pre post env (env ++ l) hsh hs

/-- flags are the bit slices of the little-endian bitfield, reserved flags are not exposed: the flag loop on an
    integer `B` stores `(B >> off) & (2^w − 1)` for each non-reserved flag and moves on by `w` bits -/
theorem C02_flag_slice (c : WCtx) (idx : List Nat) (B : Nat) (key : Name) (l w : Nat) (rest : List (Name × Ty)) (off : Nat)
    (env env1 : Env) (hres : isReservedName key = false)
    (hset : setAttr c env ⟨key, idx⟩ (.int (((B >>> off) &&& (2 ^ w - 1) : Nat) : Int)) = .ok env1) :
    flagsParse c idx B ((key, .t l w) :: rest) off env = flagsParse c idx B rest (off + w) env1 := by
  have hw : ¬ ((w : Int) < 0) := by omega
  simp only [flagsParse, flagWidth, attsiz, hw, if_false, Int.toNat_natCast, hres, Bool.false_eq_true, hset]

theorem C02_reserved_flag_not_exposed (c : WCtx) (idx : List Nat) (B : Nat) (key : Name) (l w : Nat) (rest : List (Name × Ty))
    (off : Nat) (env : Env) (hres : isReservedName key = true) :
    flagsParse c idx B ((key, .t l w) :: rest) off env = flagsParse c idx B rest (off + w) env := by
  have hw : ¬ ((w : Int) < 0) := by omega
  simp only [flagsParse, flagWidth, attsiz, hw, if_false, Int.toNat_natCast, hres, if_true]

/-- packing flag values `vᵢ < 2^wᵢ` least-significant first and slicing them back returns every value -/
def packFlags : List (Nat × Nat) → Nat
  | [] => 0
  | (w, v) :: rest => v + 2 ^ w * packFlags rest

def sliceFlags (B : Nat) : Nat → List (Nat × Nat) → List Nat
  | _, [] => []
  | off, (w, _) :: rest => ((B >>> off) &&& (2 ^ w - 1)) :: sliceFlags B (off + w) rest

theorem C02_slices_recover_flags (fs : List (Nat × Nat)) (h : ∀ f ∈ fs, f.2 < 2 ^ f.1) (lo off : Nat) (hlo : lo < 2 ^ off)
    (hi : Nat) :
    sliceFlags (lo + 2 ^ off * (packFlags fs + 2 ^ ((fs.map (·.1)).sum) * hi)) off fs = fs.map (·.2) := by
  induction fs generalizing lo off with
  | nil => simp [sliceFlags]
  | cons f rest ih =>
    obtain ⟨w, v⟩ := f
    have hv : v < 2 ^ w := h (w, v) (List.mem_cons_self ..)
    have hr : ∀ f ∈ rest, f.2 < 2 ^ f.1 := fun f hf => h f (List.mem_cons_of_mem _ hf)
    simp only [sliceFlags, packFlags, List.map_cons, List.sum_cons]
    congr 1
    · rw [Nat.shiftRight_eq_div_pow, Nat.and_two_pow_sub_one_eq_mod]
      have hpos : 0 < 2 ^ off := Nat.two_pow_pos off
      rw [Nat.add_mul_div_left _ _ hpos, Nat.div_eq_of_lt hlo, Nat.zero_add]
      have : v + 2 ^ w * packFlags rest + 2 ^ (w + (rest.map (·.1)).sum) * hi
          = v + 2 ^ w * (packFlags rest + 2 ^ ((rest.map (·.1)).sum) * hi) := by
        rw [Nat.pow_add, Nat.mul_add, Nat.mul_assoc]; omega
      rw [this, Nat.add_mul_mod_self_left, Nat.mod_eq_of_lt hv]
    · have e : lo + 2 ^ off * (v + 2 ^ w * packFlags rest + 2 ^ (w + (rest.map (·.1)).sum) * hi)
            = (lo + 2 ^ off * v) + 2 ^ (off + w) * (packFlags rest + 2 ^ ((rest.map (·.1)).sum) * hi) := by
        rw [Nat.pow_add, Nat.pow_add, Nat.mul_add, Nat.mul_add, Nat.mul_add]
        simp only [Nat.mul_assoc, Nat.add_assoc]
      rw [e]
      apply ih hr
      rw [Nat.pow_add]
      calc lo + 2 ^ off * v < 2 ^ off + 2 ^ off * v := by omega
        _ = 2 ^ off * (v + 1) := by rw [Nat.mul_add, Nat.mul_one, Nat.add_comm]
        _ ≤ 2 ^ off * 2 ^ w := Nat.mul_le_mul_left _ hv

end Ubx
