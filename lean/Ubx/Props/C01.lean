import Ubx.Proofs.Parse
/-!
# C01 — parsing then serializing a UBX frame reproduces it byte for byte

`frame c i p` is the well-formed frame (sync chars, class, id, LE length, payload, textbook Fletcher
checksum). The theorems hold for every definition table `ctx` (no well-formedness assumption), every
class/id, every payload of representable length, every msgmode (0..3), validate and bitfield setting.
The empty payload is represented by the library as `None`; `payload.getD []` reads it as `b""`.
-/
namespace Ubx

theorem C01_parse_serialize (ctx : Ctx) (mm v : Nat) (bf : Bool) (c i : Byte) (p : Bytes) (hp : p.length < 65536)
    (m : Msg) (h : parse ctx mm v bf (frame c i p) = .ok m) :
    m.serialize = frame c i p ∧ m.cls = [c] ∧ m.id = [i] ∧ m.lengthVal = p.length ∧ m.payload.getD [] = p :=
  parse_serialize ctx mm v bf c i p hp m h

/-- evaluating `repr(m)`: when the constructor call it denotes succeeds, the result serializes to the same bytes -/
theorem C01_repr_serialize (ctx : Ctx) (mm v : Nat) (bf : Bool) (c i : Byte) (p : Bytes) (hp : p.length < 65536)
    (m m' : Msg) (h : parse ctx mm v bf (frame c i p) = .ok m) (hr : reprEval ctx m = .ok m') :
    m'.serialize = frame c i p :=
  repr_serialize ctx mm v bf c i p hp m m' h hr

/-- … and it does succeed — returning the very same message — when the frame was parsed with the default
    bitfield setting (`repr` does not record `parsebitfield`; for `parsebitfield=0` success of the re-evaluation
    is covered by the correspondence check and by C16's table obligations, see DESIGN.md: `C01_repr_partial`) -/
theorem C01_repr_partial (ctx : Ctx) (mm v : Nat) (c i : Byte) (p : Bytes) (hp : p.length < 65536)
    (m : Msg) (h : parse ctx mm v true (frame c i p) = .ok m) : reprEval ctx m = .ok m := by
  obtain ⟨_, hc, hi, _, hpay⟩ := parse_serialize ctx mm v true c i p hp m h
  have e23 : slice (frame c i p) 2 3 = [c] := by rw [frame_cons]; simp [slice]
  have e34 : slice (frame c i p) 3 4 = [i] := by rw [frame_cons]; simp [slice]
  unfold parse at h
  split at h
  · cases h
  · split at h
    · cases h
    · simp only [e23, e34] at h
      unfold reprEval
      split at h
      · have hm := construct_shape _ _ _ _ _ _ _ h
        have hn := construct_empty_payload _ _ _ _ _ _ h
        rw [hn, hc, hi]
        simp only
        have hmode := hm.2.2.2.2.2.2.1
        -- the constructor is a function of (cls, id, mode, bf, kw): same arguments, same result
        have : m.mode.toNat = (if mm = 3 then (getinputmode ctx (frame c i p)).toNat else mm) := by
          generalize (if mm = 3 then (getinputmode ctx (frame c i p)).toNat else mm) = k at hmode
          cases hmm : m.mode <;> rw [hmm] at hmode <;>
            (match k, hmode with
             | 0, _ => simp_all [Mode.ofNat?, Mode.toNat]
             | 1, _ => simp_all [Mode.ofNat?, Mode.toNat]
             | 2, _ => simp_all [Mode.ofNat?, Mode.toNat]
             | _+3, hk => simp [Mode.ofNat?] at hk)
        rw [this]; exact h
      · rename_i q hq
        have hm := construct_shape _ _ _ _ _ _ _ h
        have hn := construct_payload_kept _ _ _ _ _ _ _ h
        rw [hn, hc, hi]
        simp only
        have hmode := hm.2.2.2.2.2.2.1
        have : m.mode.toNat = (if mm = 3 then (getinputmode ctx (frame c i p)).toNat else mm) := by
          generalize (if mm = 3 then (getinputmode ctx (frame c i p)).toNat else mm) = k at hmode
          cases hmm : m.mode <;> rw [hmm] at hmode <;>
            (match k, hmode with
             | 0, _ => simp_all [Mode.ofNat?, Mode.toNat]
             | 1, _ => simp_all [Mode.ofNat?, Mode.toNat]
             | 2, _ => simp_all [Mode.ofNat?, Mode.toNat]
             | _+3, hk => simp [Mode.ofNat?] at hk)
        rw [this]; exact h

/-- non-vacuity: a concrete frame that `parse` accepts (empty tables: an unknown GET message is NOMINAL) -/
example : (match parse (default : Ctx) 0 1 true (frame 0x77 0x01 [1, 2, 3]) with
           | .ok m => m.serialize == frame 0x77 0x01 [1, 2, 3]
           | .error _ => false) = true := by decide +kernel

end Ubx
