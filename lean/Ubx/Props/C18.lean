import Ubx.Proofs.Codec
import Ubx.Model.Helpers
import Ubx.Proofs.AttNames
import Ubx.Generated.Tables
/-!
# C18 — scalar encodings and helper conversions are exact inverses over their domain
-/
namespace Ubx

/-- the `ATTTYPE` facts the theorems below need, read off the regenerated tables -/
theorem atttype_int_letters :
    ([cU, cE, cL, cI].all (fun l => match lookup l Gen.ctx.atttype with
      | some ks => ks.contains Kind.int | none => false)) = true := by decide +kernel

theorem att_of (l : Nat) (h : l = cU ∨ l = cE ∨ l = cL ∨ l = cI) :
    ∃ ks, lookup l Gen.ctx.atttype = some ks ∧ ks.contains Kind.int = true := by
  have := atttype_int_letters
  simp only [List.all_cons, List.all_nil, Bool.and_true, Bool.and_eq_true] at this
  obtain ⟨h1, h2, h3, h4⟩ := this
  rcases h with rfl | rfl | rfl | rfl
  · revert h1; cases lookup cU Gen.ctx.atttype <;> simp
  · revert h2; cases lookup cE Gen.ctx.atttype <;> simp
  · revert h3; cases lookup cL Gen.ctx.atttype <;> simp
  · revert h4; cases lookup cI Gen.ctx.atttype <;> simp

/-- U / E / L types of every width: val2bytes produces exactly the type's byte width and bytes2val returns the value -/
theorem C18_unsigned_roundtrip (l n v : Nat) (hl : l = cU ∨ l = cE ∨ l = cL) (hv : v < 256 ^ n) :
    val2bytes Gen.ctx.atttype (.int v) (.t l n) = .ok (toLE n v) ∧ (toLE n v).length = n ∧
    bytes2val (toLE n v) (.t l n) = .ok (.int v) := by
  have h := uint_roundtrip Gen.ctx.atttype l n v hl (att_of l (by rcases hl with h | h | h <;> simp [h])) hv
  exact ⟨h.1, toLE_length n v, h.2⟩

theorem C18_unsigned_refuses (l n : Nat) (v : Int) (hl : l = cU ∨ l = cE ∨ l = cL)
    (hv : v < 0 ∨ ((256 ^ n : Nat) : Int) ≤ v) :
    val2bytes Gen.ctx.atttype (.int v) (.t l n) = .error .overflowE :=
  uint_refuses Gen.ctx.atttype l n v hl (att_of l (by rcases hl with h | h | h <;> simp [h])) hv

/-- I types (two's complement) of every width -/
theorem C18_signed_roundtrip (n : Nat) (v : Int) (hn : 0 < n)
    (hlo : -((2 ^ (8 * n - 1) : Nat) : Int) ≤ v) (hhi : v < ((2 ^ (8 * n - 1) : Nat) : Int)) :
    ∃ bs, val2bytes Gen.ctx.atttype (.int v) (.t cI n) = .ok bs ∧ bs.length = n ∧ bytes2val bs (.t cI n) = .ok (.int v) :=
  sint_roundtrip Gen.ctx.atttype n v hn (att_of cI (by simp)) hlo hhi

theorem C18_signed_refuses (n : Nat) (v : Int) (hn : 0 < n)
    (hv : v < -((2 ^ (8 * n - 1) : Nat) : Int) ∨ ((2 ^ (8 * n - 1) : Nat) : Int) ≤ v) :
    val2bytes Gen.ctx.atttype (.int v) (.t cI n) = .error .overflowE :=
  sint_refuses Gen.ctx.atttype n v hn (att_of cI (by simp)) hv

/-! ### every attribute type that occurs in the tables (table obligations, re-checked on every run) -/

mutual
def itemTypes : Item → List Ty
  | .attr _ ty _ => [ty]
  | .bits _ ty _ => [ty]
  | .group _ _ items => itemsTypes items
def itemsTypes : List Item → List Ty
  | [] => []
  | i :: is => itemTypes i ++ itemsTypes is
end

def typesInUse (ctx : Ctx) : List Ty :=
  ((ctx.get ++ ctx.set ++ ctx.poll).flatMap (fun e => itemsTypes e.2) ++ ctx.cfgdb.map (fun e => e.2.2)).eraseDups

/-- `nomval` yields the value whose encoding is all zero bytes, of exactly the type's width, for every type in use
    whose letter is a valid one (the FOO-BAR fixture's `Z2`/`Y1` are refused by both functions) -/
theorem C18_nomval_zero :
    ((typesInUse Gen.ctx).all (fun ty =>
      match ty with
      | .ch => decide (nomval .ch = .ok (.str []))
      | .t l n =>
        if (lookup l Gen.ctx.atttype).isSome then
          match nomval ty with
          | .ok v => decide (val2bytes Gen.ctx.atttype v ty = .ok (List.replicate n 0))
          | .error _ => false
        else decide (nomval ty = .error .ubxType ∧ val2bytes Gen.ctx.atttype (.int 0) ty = .error .ubxType)
      | .malformed _ => false)) = true := by
  decide +kernel

/-- X / C types: the value's own bytes, refused (X) unless exactly the type's width (fix eff6ead) -/
theorem C18_bytes_roundtrip (n : Nat) (b : Bytes) (hb : b.length = n)
    (hatt : ∃ ks, lookup cX Gen.ctx.atttype = some ks ∧ ks.contains Kind.bytes = true) :
    val2bytes Gen.ctx.atttype (.bytes b) (.t cX n) = .ok b ∧ bytes2val b (.t cX n) = .ok (.bytes b) := by
  obtain ⟨ks, hk, hc⟩ := hatt
  constructor
  · unfold val2bytes
    simp only [atttyp, hk, PyVal.kind?, hc, Bool.not_true, Bool.false_eq_true, if_false, if_true, attsiz, hb]
  · unfold bytes2val
    simp [atttyp]

theorem C18_X_wrong_length_refused (n : Nat) (b : Bytes) (hb : b.length ≠ n)
    (hatt : ∃ ks, lookup cX Gen.ctx.atttype = some ks ∧ ks.contains Kind.bytes = true) :
    val2bytes Gen.ctx.atttype (.bytes b) (.t cX n) = .error .valueE := by
  obtain ⟨ks, hk, hc⟩ := hatt
  unfold val2bytes
  simp only [atttyp, hk, PyVal.kind?, hc, Bool.not_true, Bool.false_eq_true, if_false, if_true, attsiz]
  have : ¬ ((b.length : Int) = (n : Int)) := by omega
  simp [this]

theorem atttype_X : ∃ ks, lookup cX Gen.ctx.atttype = some ks ∧ ks.contains Kind.bytes = true := by
  have : (match lookup cX Gen.ctx.atttype with | some ks => ks.contains Kind.bytes | none => false) = true := by
    decide +kernel
  revert this; cases lookup cX Gen.ctx.atttype <;> simp

/-! ### checksums -/

/-- `calc_checksum` is the textbook 8-bit Fletcher checksum, for every byte string -/
theorem C18_fletcher (bs : Bytes) : calcChecksum bs = fletcherSpec bs := calcChecksum_eq_spec bs

/-- `isvalid_checksum(m)` ⇔ the last two bytes are the Fletcher checksum of `m[2:-2]` -/
theorem C18_isvalid_iff (m : Bytes) :
    isValidChecksum m = true ↔ slice m (m.length - 2) m.length = fletcherSpec (slice m 2 (m.length - 2)) := by
  unfold isValidChecksum
  rw [calcChecksum_eq_spec]
  simp

/-! ### get_bits -/

theorem trailingZeros_spec (f m : Nat) (hm : m ≠ 0) (hf : m < 2 ^ f) :
    2 ^ trailingZeros f m ∣ m ∧ (m / 2 ^ trailingZeros f m) % 2 = 1 := by
  induction f generalizing m with
  | zero => simp at hf; omega
  | succ f ih =>
    unfold trailingZeros
    by_cases h : m % 2 = 0
    · rw [if_pos h]
      have hm2 : m / 2 ≠ 0 := by omega
      have hf2 : m / 2 < 2 ^ f := by rw [Nat.pow_succ] at hf; omega
      obtain ⟨i1, i2⟩ := ih (m / 2) hm2 hf2
      have e : 2 ^ (1 + trailingZeros f (m / 2)) = 2 * 2 ^ trailingZeros f (m / 2) := by
        rw [Nat.add_comm, Nat.pow_succ]; omega
      rw [e]
      constructor
      · obtain ⟨k, hk⟩ := i1
        refine ⟨k, ?_⟩
        rw [Nat.mul_assoc, ← hk]; omega
      · rw [← Nat.div_div_eq_div_mul]; exact i2
    · rw [if_neg h]
      simp; omega

/-- the documented formula: the masked bits, shifted down to bit 0; the bitfield is read as a big-endian integer
    (`int(bitfield.hex(), 16)`); for a one-byte bitfield this is the parser's own flag slice -/
theorem C18_get_bits (bf : Bytes) (mask : Nat) (hb : bf ≠ []) (hm : mask ≠ 0) :
    ∃ tz, getBits bf mask = some (.ok ((fromBE bf >>> tz) &&& (mask >>> tz))) ∧ 2 ^ tz ∣ mask ∧ (mask >>> tz) % 2 = 1 := by
  unfold getBits
  have hne : bf.isEmpty = false := by cases bf <;> simp_all
  simp only [hne, Bool.false_eq_true, if_false, hm]
  refine ⟨_, rfl, ?_⟩
  have hlt : mask < 2 ^ (mask.log2 + 1) := (Nat.log2_lt hm).mp (by omega)
  have := trailingZeros_spec (mask.log2 + 1) mask hm hlt
  rw [Nat.shiftRight_eq_div_pow]
  exact this

/-- one-byte bitfields: for every byte, every flag offset and width that fits, `get_bits` with the flag's mask
    equals the walker's slice `(bitfield >> off) & ((1 << w) - 1)` — all 256 × 36 cases, by evaluation -/
theorem C18_get_bits_agrees_with_walker :
    ((List.range 256).all (fun b => (List.range 8).all (fun off => (List.range 9).all (fun w =>
      w == 0 || off + w > 8 ||
      decide (getBits [UInt8.ofNat b] ((2 ^ w - 1) <<< off)
              = some (.ok ((fromLE [UInt8.ofNat b] >>> off) &&& (2 ^ w - 1))))))) ) = true := by
  decide +kernel

/-! ### protocol() -/

/-- `protocol(raw)` classifies by the first two bytes exactly as the reader's dispatch does -/
theorem C18_protocol_spec (hdr : List Byte) (b1 b2 : Byte) (rest : Bytes) :
    protocol hdr (b1 :: b2 :: rest) =
      .ok (if b1 = 0xb5 ∧ b2 = 0x62 then 2
           else if b1 = 0x24 ∧ hdr.contains b2 = true then 1
           else if b1 = 0xd3 ∧ b2 &&& 0xfc = 0 then 4 else 0) := by
  have hs : slice (b1 :: b2 :: rest) 0 2 = [b1, b2] := by simp [slice]
  unfold protocol
  rw [hs]
  by_cases h1 : b1 = 0xb5 ∧ b2 = 0x62
  · obtain ⟨rfl, rfl⟩ := h1; simp
  · have h1' : ¬ ([b1, b2] = ([0xb5, 0x62] : Bytes)) := by
      intro hc; injection hc with a b; injection b with b _; exact h1 ⟨a, b⟩
    simp only [h1', if_false, h1]
    by_cases h2 : b1 = 0x24 ∧ hdr.contains b2 = true
    · have : ([b1, b2] : Bytes).length = 2 ∧ ([b1, b2] : Bytes).getD 0 0 = 0x24 ∧ hdr.contains (([b1, b2] : Bytes).getD 1 0) = true := by
        simpa using h2
      rw [if_pos this, if_pos h2]
    · have : ¬ (([b1, b2] : Bytes).length = 2 ∧ ([b1, b2] : Bytes).getD 0 0 = 0x24 ∧ hdr.contains (([b1, b2] : Bytes).getD 1 0) = true) := by
        simpa using h2
      rw [if_neg this, if_neg h2]
      by_cases h3 : b1 = 0xd3 ∧ b2 &&& 0xfc = 0
      · simp only [h3, and_self, if_true]
      · simp only [h3, if_false]


/-- **`att2idx` / `att2name` are consistent with the names the walk exposes**: for a base name without an underscore
    and any nesting of group indices, `att2name` of the rendered name (`base_%02d_%02d…`) is the base and `att2idx` is
    `0` / the index / the tuple of indices. (Base names that themselves contain an underscore — CFG-TXSLOT's `end_01` is
    one — are outside the helpers' domain: `att2idx("end_01") = 1`.) -/
theorem C18_att2idx_att2name (base idx : List Nat) (hb : ∀ c ∈ base, c ≠ 95) :
    att2name (renderName base idx) = base ∧
    att2idx (renderName base idx) =
      (match idx with
       | [] => .zero
       | [i] => .one i
       | i :: j :: rest => .many (i :: j :: rest)) :=
  ⟨att2name_render base idx hb, att2idx_render base idx hb⟩

/-- `svid_06`, `gsid_03_04`, `gnssId_103`, `tow`; and the out-of-domain `end_01` -/
example : renderName [115, 118, 105, 100] [6] = [115, 118, 105, 100, 95, 48, 54] := by decide +kernel
example : att2idx (renderName [103, 115, 105, 100] [3, 4]) = .many [3, 4] := by decide +kernel
example : att2idx (renderName [103] [103]) = .one 103 := by decide +kernel
example : att2idx [116, 111, 119] = .zero := by decide +kernel
example : att2idx [101, 110, 100, 95, 48, 49] = .one 1 := by decide +kernel

end Ubx
