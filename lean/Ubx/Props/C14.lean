import Ubx.Proofs.Message
import Ubx.Proofs.Sorting
import Ubx.Proofs.CfgVal
import Ubx.Generated.Tables
/-!
# C14 — configuration-database messages carry exactly the keys and values given
-/
namespace Ubx

/-! ### table obligations on the regenerated configuration database -/

/-- every key's declared type has the storage width its id's size code (bits 28–30) prescribes -/
theorem C14_size_codes :
    (Gen.ctx.cfgdb.all (fun e =>
      match e.2.2 with
      | .t _ sz => (lookup ((e.2.1 >>> 28) &&& 7) Gen.ctx.storsize) == some sz
      | _ => false)) = true := by
  decide +kernel

/-- key names are pairwise distinct (merge sort + strictly-increasing check, evaluated by the kernel) -/
theorem C14_names_distinct : distinctNat (Gen.ctx.cfgdb.map (fun e => e.1)) = true := by decide +kernel

/-- key ids are pairwise distinct, apart from the ids listed as alias findings (`exemptKeyIds`, generated
    from KNOWN_FINDINGS.txt) -/
theorem C14_ids_distinct :
    distinctNat ((Gen.ctx.cfgdb.filter (fun e => !Gen.exemptKeyIds.contains e.2.1)).map (fun e => e.2.1)) = true := by
  decide +kernel

/-- name → (id, type) finds every entry under its own name -/
theorem C14_name_lookup (e : Name × Nat × Ty) (he : e ∈ Gen.ctx.cfgdb) : cfgname2key Gen.ctx e.1 = .ok e.2 := by
  unfold cfgname2key
  have := find?_of_nodup_keys (fun x : Name × Nat × Ty => x.1) Gen.ctx.cfgdb (distinctNat_nodup _ C14_names_distinct) e he
  rw [this]

theorem find?_filter_key {α : Type} (key : α → Nat) (p : α → Bool) (k : Nat) (l : List α)
    (h : ∀ x ∈ l, p x = false → key x ≠ k) :
    l.find? (fun x => key x == k) = (l.filter p).find? (fun x => key x == k) := by
  induction l with
  | nil => rfl
  | cons x rest ih =>
    have ih' := ih (fun y hy => h y (List.mem_cons_of_mem _ hy))
    by_cases hp : p x = true
    · simp only [List.filter_cons, hp, if_true, List.find?_cons]
      split
      · rfl
      · exact ih'
    · have hp' : p x = false := by simpa using hp
      have hne := h x (List.mem_cons_self ..) hp'
      have : (key x == k) = false := by simpa using hne
      simp only [List.filter_cons, hp', Bool.false_eq_true, if_false, List.find?_cons, this]
      exact ih'

/-- id → (name, type) returns the entry's own name and type for every key that is not an alias finding -/
theorem C14_id_lookup (e : Name × Nat × Ty) (he : e ∈ Gen.ctx.cfgdb) (hx : Gen.exemptKeyIds.contains e.2.1 = false) :
    cfgkey2name Gen.ctx e.2.1 = .ok (e.1, e.2.2) := by
  unfold cfgkey2name
  have hmem : e ∈ Gen.ctx.cfgdb.filter (fun x => !Gen.exemptKeyIds.contains x.2.1) := by
    rw [List.mem_filter]; exact ⟨he, by simpa using hx⟩
  have h1 := find?_of_nodup_keys (fun x : Name × Nat × Ty => x.2.1) _ (distinctNat_nodup _ C14_ids_distinct) e hmem
  have h2 := find?_filter_key (fun x : Name × Nat × Ty => x.2.1) (fun x => !Gen.exemptKeyIds.contains x.2.1) e.2.1 Gen.ctx.cfgdb
    (by
      intro x _ hpx hk
      simp only [Bool.not_eq_false'] at hpx
      rw [hk] at hpx
      rw [hpx] at hx; cases hx)
  rw [h2, h1]

/-- hence name-to-id and id-to-name lookups agree on every non-exempt key -/
theorem C14_lookups_agree (e : Name × Nat × Ty) (he : e ∈ Gen.ctx.cfgdb) (hx : Gen.exemptKeyIds.contains e.2.1 = false) :
    cfgname2key Gen.ctx e.1 = .ok e.2 ∧ cfgkey2name Gen.ctx e.2.1 = .ok (e.1, e.2.2) :=
  ⟨C14_name_lookup e he, C14_id_lookup e he hx⟩

/-- an unknown id is named `CFG_0x…` and typed `X` with the width of its leading hex digit's size code,
    e.g. 0x20930009 (size code 2 ↦ one byte) -/
example : (cfgkey2name Gen.ctx 0x5cd36a7f) = .ok (nm "CFG_0x5cd36a7f", .t cX 8) := by decide +kernel

/-! ### payload assembly of config_set / config_del / config_poll -/

/-- more than 64 items is refused -/
theorem C14_more_than_64_refused (ctx : Ctx) (l t : Int) (d : List (CfgKey × PyVal)) (k : List CfgKey) (hd : 64 < d.length) (hk : 64 < k.length) :
    configSet ctx l t d = .error .ubxMessage ∧ configDel ctx l t k = .error .ubxMessage ∧
    configPoll ctx l t k = .error .ubxMessage := by
  simp [configSet, configDel, configPoll, hd, hk]

/-- what one (key, value) item contributes: the 32-bit LE key id, then the value in the key's storage type -/
theorem cfgItems_cons (ctx : Ctx) (k : CfgKey) (v : PyVal) (rest : List (CfgKey × PyVal)) (bs : Bytes)
    (h : cfgItems ctx ((k, v) :: rest) = .ok bs) :
    ∃ kid ty kb vb rb,
      (match k with
       | .byName n => cfgname2key ctx n = .ok (kid, ty)
       | .byId i => i = kid ∧ ∃ nm, cfgkey2name ctx i = .ok (nm, ty)) ∧
      val2bytes ctx.atttype (.int kid) (.t cU 4) = .ok kb ∧ val2bytes ctx.atttype v ty = .ok vb ∧
      cfgItems ctx rest = .ok rb ∧ bs = kb ++ vb ++ rb := by
  unfold cfgItems at h
  simp only [bind, Except.bind] at h
  split at h
  · cases h
  · rename_i kt hkt
    obtain ⟨kid, ty⟩ := kt
    simp only at h
    split at h
    · cases h
    · rename_i kb hkb
      split at h
      · cases h
      · rename_i vb hvb
        split at h
        · cases h
        · rename_i rb hrb
          simp only [pure, Except.pure] at h
          cases h
          refine ⟨kid, ty, kb, vb, rb, ?_, hkb, hvb, hrb, rfl⟩
          cases k with
          | byName n => exact hkt
          | byId i =>
            simp only [bind, Except.bind] at hkt
            split at hkt
            · cases hkt
            · rename_i nt hnt
              simp only [pure, Except.pure] at hkt
              cases hkt
              exact ⟨rfl, nt.1, hnt⟩

/-- the CFG-VALSET payload is the 4-byte header followed by the items, in order -/
theorem C14_config_set_payload (ctx : Ctx) (l t : Int) (d : List (CfgKey × PyVal)) (m : Msg)
    (h : configSet ctx l t d = .ok m) :
    ∃ hdr items, cfgHeader ctx l t = .ok hdr ∧ cfgItems ctx d = .ok items ∧ m.payload = some (hdr ++ items) ∧ d.length ≤ 64 := by
  unfold configSet at h
  split at h
  · cases h
  · rename_i hlen
    simp only [bind, Except.bind] at h
    split at h
    · cases h
    · rename_i hdr hh
      split at h
      · cases h
      · rename_i items hi
        refine ⟨hdr, items, hh, hi, ?_, by omega⟩
        unfold constructNamed at h
        simp only [bind, Except.bind] at h
        split at h
        · cases h
        · exact construct_payload_kept _ _ _ _ _ _ _ h

/-- the header: version (0, or 1 inside a transaction), layers, transaction, one reserved zero byte -/
theorem C14_header (l t : Nat) (hl : l < 256) (ht : t < 256) :
    cfgHeader Gen.ctx l t = .ok [if t = 0 then 0 else 1, UInt8.ofNat l, UInt8.ofNat t, 0] := by
  have hatt : lookup cU Gen.ctx.atttype = some [Kind.int] := by decide +kernel
  have e : ∀ (x : Nat), x < 256 → val2bytes Gen.ctx.atttype (.int (x : Int)) (.t cU 1) = .ok [UInt8.ofNat x] := by
    intro x hx
    unfold val2bytes
    simp only [atttyp, hatt, PyVal.kind?, PyVal.asInt?, attsiz]
    unfold intToBytes
    have : (0 : Int) ≤ (x : Int) ∧ (x : Int) < ((256 ^ 1 : Nat) : Int) := by constructor <;> omega
    simp [cU, cX, cC, cI, isIntLetter, cE, cL, toLE, Nat.mod_eq_of_lt hx]
    omega
  unfold cfgHeader
  simp only [bind, Except.bind]
  by_cases h0 : t = 0
  · subst h0
    have e0 := e 0 (by omega)
    simp only [Int.natCast_zero] at e0 ⊢
    simp only [if_true, e0, e l hl, pure, Except.pure, List.cons_append, List.nil_append]
    rfl
  · have h1 := e 1 (by omega)
    have hne : ¬ ((t : Int) = 0) := by omega
    simp only [hne, if_false, h0]
    simp only [Int.natCast_one] at h1
    simp only [h1, e l hl, e t ht, pure, Except.pure, List.cons_append, List.nil_append]
    rfl

/-! ### parsing CFG-VALSET / CFG-VALGET payloads -/

/-- the key/value walk over `header ++ key₁ value₁ key₂ value₂ …` (32-bit LE ids, values at the width of their
    type) performs, in order, exactly one `setattr(name, decoded value)` per item — for known keys (name and type from
    the database) and unknown ones (`CFG_0x…`, `X` type of the size code's width) alike — and nothing else -/
theorem C14_cfgval_parse (c : WCtx) (items : List CfgItem) (hok : ∀ it ∈ items, it.ok c.ctx)
    (hdr : Bytes) (hh : 4 ≤ hdr.length) (env env' : Env) (hs : applyAllDecoded c env items = .ok env') :
    cfgLoop c (hdr ++ encCfg items) ((hdr ++ encCfg items).length - 4) (items.length + 1) hdr.length env = .ok env' :=
  cfgLoop_spec c items hok hdr env env' (items.length + 1) (by omega) hh hs

/-- … which is what the group of a CFG-VALGET (GET) / CFG-VALSET (SET) message runs (4-byte header before it) -/
theorem C14_wCfgVal (c : WCtx) (hp : c.hasPayload = true) (items : List CfgItem) (hok : ∀ it ∈ items, it.ok c.ctx)
    (hdr : Bytes) (hh : hdr.length = 4) (env env' : Env) (hs : applyAllDecoded c env items = .ok env') :
    wCfgVal c ⟨4, hdr ++ encCfg items, env⟩ = .ok ⟨4, hdr ++ encCfg items, env'⟩ := by
  unfold wCfgVal
  simp only [hp, Bool.not_true, Bool.false_eq_true, if_false]
  have hlen : ∀ it ∈ items, 5 ≤ it.enc.length := by
    intro it hit
    obtain ⟨_, _, h3, h4⟩ := hok it hit
    simp [CfgItem.enc, h3]; omega
  have hge : items.length ≤ (encCfg items).length := by
    clear hs hok
    induction items with
    | nil => simp [encCfg]
    | cons it rest ih =>
      have h5 := hlen it (List.mem_cons_self ..)
      have := ih (fun x hx => hlen x (List.mem_cons_of_mem _ hx))
      simp only [encCfg, List.map_cons, List.flatten_cons, List.length_append, List.length_cons] at this ⊢
      omega
  -- the loop's own fuel (cfglen + 1) is enough: every item is at least 5 bytes long
  have := cfgLoop_spec c items hok hdr env env' ((hdr ++ encCfg items).length - 4 + 1)
    (by rw [List.length_append]; omega) (by omega) hs
  rw [hh] at this
  simp only [this]

end Ubx
