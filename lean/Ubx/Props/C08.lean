import Ubx.Proofs.ParseTotal
import Ubx.Proofs.Frames
import Ubx.Proofs.Consume
import Ubx.Proofs.Parse
import Ubx.Proofs.StrTotal
import Ubx.Generated.Tables
/-!
# C08 — no input makes parsing or reading fail with a foreign exception or hang
-/
namespace Ubx

/-! ### the table-level hypotheses, discharged on the regenerated tables -/

theorem gen_catch_all : ([Exc.attributeE, .indexE, .structE, .typeE, .valueE, .overflowE].all
    (fun e => Gen.ctx.catchType.contains e)) = true := by decide +kernel

theorem gen_selectors_known : selectorsKnown Gen.ctx = true := by decide +kernel

theorem gen_no_zero_var : (allDefs Gen.ctx).all (fun e => noZeroVarL e.2.2) = true := by decide +kernel

theorem gen_total : TotalHyp Gen.ctx where
  catch_all := by
    intro e he
    have h := gen_catch_all
    simp only [List.all_cons, List.all_nil, Bool.and_true, Bool.and_eq_true] at h
    obtain ⟨h1, h2, h3, h4, h5, h6⟩ := h
    cases e <;> first
      | (left; rfl)
      | (right; assumption)
      | (cases he)
  selectors := gen_selectors_known
  no_zero := gen_no_zero_var

/-- **C08**: for every byte string, msgmode, validate and parsebitfield, `UBXReader.parse` on the shipped tables
    either returns a message or raises one of the library's UBX* error types -/
theorem C08_parse_total (mm v : Nat) (bf : Bool) (bs : Bytes) :
    (∃ m, parse Gen.ctx mm v bf bs = .ok m) ∨ (∃ e, parse Gen.ctx mm v bf bs = .error e ∧ e.isUBX = true) := by
  cases h : parse Gen.ctx mm v bf bs with
  | ok m => exact Or.inl ⟨m, rfl⟩
  | error e => exact Or.inr ⟨e, rfl, parse_total Gen.ctx gen_total mm v bf bs e h⟩

/-- the same for any tables satisfying the three hypotheses (so a table edit that keeps them keeps the theorem) -/
theorem C08_parse_total_generic (ctx : Ctx) (H : TotalHyp ctx) (mm v : Nat) (bf : Bool) (bs : Bytes) (e : Exc)
    (h : parse ctx mm v bf bs = .error e) : e.isUBX = true := parse_total ctx H mm v bf bs e h

/-! ### the reader -/

/-- the UBX leg of the reader's parser parameter: `self.parse(...)`, with exceptions classified by `read()`'s catch list -/
def ubxVerdict (ctx : Ctx) (mm v : Nat) (bf : Bool) (raw : Bytes) : Verdict Msg :=
  match parse ctx mm v bf raw with
  | .ok m => .ok m
  | .error e => if ctx.readCatch.contains e then .rejected e.code else .crash e.code

theorem gen_read_catch : ([Exc.ubxParse, .ubxMessage, .ubxType, .ubxStream].all (fun e => Gen.ctx.readCatch.contains e)) = true := by
  decide +kernel

/-- no UBX frame makes the reader raise a foreign exception -/
theorem C08_ubx_never_crashes (mm v : Nat) (bf : Bool) (raw : Bytes) (c : Nat) : ubxVerdict Gen.ctx mm v bf raw ≠ .crash c := by
  unfold ubxVerdict
  cases h : parse Gen.ctx mm v bf raw with
  | ok m => intro hc; cases hc
  | error e =>
    have hu := parse_total Gen.ctx gen_total mm v bf raw e h
    have hc := gen_read_catch
    simp only [List.all_cons, List.all_nil, Bool.and_true, Bool.and_eq_true] at hc
    obtain ⟨h1, h2, h3, h4⟩ := hc
    have : Gen.ctx.readCatch.contains e = true := by
      cases e <;> first | assumption | (cases hu)
    simp only [this, if_true]
    intro hc; cases hc

/-- a reader whose NMEA / RTCM3 parsers raise only their own protocol errors (`hN`) never raises a foreign exception,
    whatever the stream, filter, parsing flag or error policy: the trace contains no crash … -/
theorem C08_reader_no_foreign_exception {σ : Type} (S : Src σ) (nmeaHdr : Byte → Bool) (cfg : RCfg)
    (mm v : Nat) (bf : Bool) (ON : Proto → Bytes → Verdict Msg) (hN : ∀ p raw c, ON p raw ≠ .crash c)
    (f : Nat) (st : Option σ) :
    ∀ o ∈ run S nmeaHdr cfg (fun p raw => if p = .ubx then ubxVerdict Gen.ctx mm v bf raw else ON p raw) f st,
      ∀ p c, o ≠ .crash p c := by
  apply run_no_crash
  intro p raw c
  by_cases hp : p = .ubx
  · simp only [hp, if_true]; exact C08_ubx_never_crashes mm v bf raw c
  · simp only [hp, if_false]; exact hN p raw c

/-- … with ERR_IGNORE / ERR_LOG nothing is raised at all, and with ERR_RAISE what is raised is a protocol error
    (stream error, unknown header, or a frame rejected by its protocol's parser): `raised` is an `EKind` by type -/
theorem C08_reader_never_raises_unless_asked {σ α : Type} (S : Src σ) (nmeaHdr : Byte → Bool) (cfg : RCfg) (O : Oracle α)
    (q : Nat) (hq : q ≠ 2) (f : Nat) (st : Option σ) : (runP S nmeaHdr cfg O q f st).raised = none := by
  induction f generalizing st with
  | zero => rfl
  | succ f ih =>
    cases st with
    | none => rfl
    | some s =>
      simp only [runP]
      generalize step S nmeaHdr cfg O s = r
      obtain ⟨o, s'⟩ := r
      cases o with
      | eof => rfl
      | crash p c => rfl
      | skip => exact ih s'
      | item p raw m => simp only [PRes.consItem]; exact ih s'
      | err k =>
        by_cases h0 : q = 0
        · simp only [h0, if_true]; have := ih s'; rw [h0] at this; exact this
        · simp only [h0, if_false, hq]
          by_cases h1 : q = 1
          · simp only [h1, if_true, PRes.consCall]; have := ih s'; rw [h1] at this; exact this
          · simp only [h1, if_false]; exact ih s'

/-- iteration terminates: over a file-like stream of `n` bytes the loop makes at most `n + 2` passes and ends with
    end-of-stream (or a crash, excluded above) -/
theorem C08_reader_terminates {α : Type} (nmeaHdr : Byte → Bool) (cfg : RCfg) (O : Oracle α) (s : Bytes) :
    ∃ tr o, readFile nmeaHdr cfg O s = tr ++ [o] ∧ (o = .eof ∨ ∃ p c, o = .crash p c) := by
  apply run_ends fileSrc (fun x => x) file_linear
  · intro s' hs'; cases hs'; omega
  · omega


/-! ### inspection: `str` -/

theorem gen_str_safe : (allDefs Gen.ctx).all (fun e => strSafeL e.2.2) = true := by decide +kernel

theorem gen_cfg_names_ok : cfgNamesOK Gen.ctx = true := by decide +kernel

theorem gen_str : StrHyp Gen.ctx := ⟨gen_selectors_known, gen_str_safe, gen_cfg_names_ok⟩

/-- **C08, "every message it returns can be inspected (str …) without raising"**: on the shipped tables, whatever the
    input bytes, mode, validation and bitfield setting, the message `parse` returns renders with `str()` without an
    exception: every attribute `__str__` converts by name (`iTOW` through `itow2utc`; `clsID`/`msgClass`/`msgID` through
    `val2bytes(·, U1)` for ACK-* and CFG-MSG) holds an integer inside the converter's domain -/
theorem C08_str_total (mm v : Nat) (bf : Bool) (bs : Bytes) (m : Msg) (h : parse Gen.ctx mm v bf bs = .ok m) :
    m.strExc = none := parse_str_total Gen.ctx gen_str mm v bf bs m h

/-- non-vacuity: a NAV-PVT-like iTOW carrier (NAV-CLOCK, 20 bytes) and an ACK-ACK are parsed and rendered -/
example : (match parse Gen.ctx 0 0 true ([0xb5, 0x62, 0x05, 0x01, 0x02, 0x00, 0x13, 0x99, 0, 0]) with
    | .ok m => m.strExc == none && m.env.length == 2 | .error _ => false) = true := by decide +kernel
example : (match parse Gen.ctx 0 0 true ([0xb5, 0x62, 0x01, 0x22, 20, 0] ++ List.replicate 20 0xff ++ [0, 0]) with
    | .ok m => m.strExc == none && m.env.length == 5 | .error _ => false) = true := by decide +kernel

/-- the hypothesis matters: a definition whose `iTOW` is a float (or whose `msgID` is two bytes wide) is refused by the
    table check, and there `str` does raise (NaN) -/
example : strSafeL [.attr N.aITOW (.t cR 8) .one] = false := by decide
example : strLoop false [(⟨N.aITOW, []⟩, .float 0x7FF8000000000000)] false = some .valueE := by decide +kernel

/-- returned messages can be re-created from their `repr` (default bitfield setting), see C01 -/
theorem C08_repr_total (mm v : Nat) (c i : Byte) (p : Bytes) (hp : p.length < 65536) (m : Msg)
    (h : parse Gen.ctx mm v true (frame c i p) = .ok m) : reprEval Gen.ctx m = .ok m := by
  obtain ⟨_, hc, hi, _, hpay⟩ := parse_serialize Gen.ctx mm v true c i p hp m h
  have e23 : slice (frame c i p) 2 3 = [c] := by rw [frame_cons]; simp [slice]
  have e34 : slice (frame c i p) 3 4 = [i] := by rw [frame_cons]; simp [slice]
  unfold parse at h
  split at h
  · cases h
  · split at h
    · cases h
    · simp only [e23, e34] at h
      unfold reprEval
      have key : ∀ (k : Nat) (hm : Mode.ofNat? k = some m.mode), m.mode.toNat = k := by
        intro k hm
        cases hmm : m.mode <;> rw [hmm] at hm <;>
          (match k, hm with
           | 0, _ => simp_all [Mode.ofNat?, Mode.toNat]
           | 1, _ => simp_all [Mode.ofNat?, Mode.toNat]
           | 2, _ => simp_all [Mode.ofNat?, Mode.toNat]
           | _+3, hk => simp [Mode.ofNat?] at hk)
      split at h
      · have hm := construct_shape _ _ _ _ _ _ _ h
        rw [construct_empty_payload _ _ _ _ _ _ h, hc, hi]
        simp only
        rw [key _ hm.2.2.2.2.2.2.1]; exact h
      · have hm := construct_shape _ _ _ _ _ _ _ h
        rw [construct_payload_kept _ _ _ _ _ _ _ h, hc, hi]
        simp only
        rw [key _ hm.2.2.2.2.2.2.1]; exact h

/-- the repaired defects stay repaired (fixes f2f2bdb, 04fab32, 9d426cd, 8176d01), evaluated on the model over
    the shipped tables: truncated MON-SPAN array, MGA frame without payload, oversized input -/
example : parse Gen.ctx 0 0 true
    ([0xb5, 0x62, 0x0a, 0x31, 0x10, 0x00, 0x00, 0x01] ++ List.replicate 14 0 ++ [0x00, 0x00]) = .error .ubxType := by
  decide +kernel
example : (parse Gen.ctx 0 1 true [0xb5, 0x62, 0x13, 0x00, 0x00, 0x00, 0x13, 0x4c]).isOk = true := by decide +kernel

end Ubx
