import Ubx.Proofs.Parse
/-!
# C05 — checksum validation never lets a malformed or corrupted frame through
-/
namespace Ubx

/-- with VALCKSUM a message is returned only if the input is a well-formed frame:
    begins with b5 62, length field = actual payload length, last two bytes = Fletcher checksum of class..payload -/
theorem C05_valid_only_wf (ctx : Ctx) (mm v : Nat) (bf : Bool) (msg : Bytes) (m : Msg)
    (hv : v &&& 1 ≠ 0) (h : parse ctx mm v bf msg = .ok m) : WF msg :=
  parse_valid_only_wf ctx mm v bf msg m hv h

/-- consequently any substitution, insertion, deletion, truncation or burst applied to a frame — any input
    at all — is rejected with UBXParseError unless the result is itself a well-formed frame -/
theorem C05_corruption_rejected (ctx : Ctx) (mm v : Nat) (bf : Bool) (msg : Bytes)
    (hv : v &&& 1 ≠ 0) (hn : ¬ WF msg) : parse ctx mm v bf msg = .error .ubxParse :=
  parse_rejects_malformed ctx mm v bf msg hv hn

/-- a well-formed frame is characterised by three checkable facts -/
theorem WF_iff (f : Bytes) :
    WF f ↔ ∃ c i p, p.length < 65536 ∧
      f = [0xb5, 0x62] ++ [c, i] ++ toLE 2 p.length ++ p ++ calcChecksum ([c, i] ++ toLE 2 p.length ++ p) := by
  constructor
  · rintro ⟨c, i, p, hp, rfl⟩
    exact ⟨c, i, p, hp, by rw [calcChecksum_eq_spec]; rfl⟩
  · rintro ⟨c, i, p, hp, rfl⟩
    exact ⟨c, i, p, hp, by rw [calcChecksum_eq_spec]; rfl⟩

theorem slice_append_left (a b : Bytes) (i j : Nat) (hj : j ≤ a.length) : slice (a ++ b) i j = slice a i j := by
  unfold slice
  by_cases hi : i ≤ a.length
  · rw [List.drop_append_of_le_length hi, List.take_append_of_le_length (by rw [List.length_drop]; omega)]
  · have h0 : j - i = 0 := by omega
    simp [h0]

/-- with VALNONE the two checksum bytes are never looked at: any two 2-byte endings give the same result
    (same message, same attributes, or the same error) -/
theorem C05_valnone_ignores_checksum (ctx : Ctx) (mm v : Nat) (bf : Bool) (body ck ck' : Bytes)
    (hv : v &&& 1 = 0) (hb : 6 ≤ body.length) (h1 : ck.length = 2) (h2 : ck'.length = 2) :
    parse ctx mm v bf (body ++ ck) = parse ctx mm v bf (body ++ ck') := by
  have s1 : ∀ (x : Bytes) i j, j ≤ 6 → slice (body ++ x) i j = slice body i j :=
    fun x i j hj => slice_append_left body x i j (by omega)
  have pp : ∀ (x : Bytes), x.length = 2 → parsePayload (body ++ x) = (if slice body 4 6 = [0, 0] then none else some (body.drop 6)) := by
    intro x hx
    unfold parsePayload
    rw [s1 x 4 6 (by omega)]
    split
    · rfl
    · congr 1
      have : (((body ++ x).length : Int) - 2) = ((body.length : Nat) : Int) := by
        rw [List.length_append, hx]; omega
      have h6 : ((6 : Int)) = ((6 : Nat) : Int) := rfl
      rw [this, h6, pySlice_nat _ _ _ (by rw [List.length_append]; omega) (by rw [List.length_append]; omega)]
      rw [slice_append_left body x 6 body.length (by omega)]
      unfold slice
      rw [List.take_of_length_le (by rw [List.length_drop]; omega)]
  have gm : getinputmode ctx (body ++ ck) = getinputmode ctx (body ++ ck') := by
    unfold getinputmode
    rw [s1 ck 2 4 (by omega), s1 ck' 2 4 (by omega), List.length_append, List.length_append, h1, h2]
  unfold parse
  have hv' : ¬ (v &&& 1 ≠ 0) := by omega
  simp only [hv', false_and, if_false]
  rw [pp ck h1, pp ck' h2, gm, s1 ck 2 3 (by omega), s1 ck' 2 3 (by omega), s1 ck 3 4 (by omega), s1 ck' 3 4 (by omega)]

/-- the defect repaired by fix 8176d01 stays repaired: 6- and 7-byte inputs and a zero-length frame with
    bytes inserted before the checksum are rejected -/
example : parse (default : Ctx) 0 1 true [0xb5, 0x62, 0x00, 0x00, 0x00, 0x00] = .error .ubxParse := by decide +kernel
example : parse (default : Ctx) 0 1 true [0xb5, 0x62, 0x01, 0xff, 0x00, 0x00, 0x01] = .error .ubxParse := by decide +kernel
example : parse (default : Ctx) 0 1 true [0xb5, 0x62, 0x06, 0x01, 0x00, 0x00, 0x07, 0x07, 0x07, 0x1b] = .error .ubxParse := by decide +kernel
/-- non-vacuity of `WF`: a frame that is accepted -/
example : (parse (default : Ctx) 0 1 true [0xb5, 0x62, 0x06, 0x01, 0x00, 0x00, 0x07, 0x1b]).isOk = true := by decide +kernel

end Ubx
