import Ubx.Proofs.Consume
/-!
# C07 — the reader neither invents, duplicates, reorders nor abandons stream bytes
-/
namespace Ubx
variable {α : Type}

/-- the raw items are non-overlapping slices of the input, in input order -/
theorem C07_slices (nmeaHdr : Byte → Bool) (cfg : RCfg) (O : Oracle α) (s : Bytes) :
    Slices (rawsOf (readFile nmeaHdr cfg O s)) s :=
  (run_slices fileSrc (fun x => x) file_linear nmeaHdr cfg O _ s).1

/-- each begins with a UBX, NMEA or RTCM3 preamble byte -/
theorem C07_preamble (nmeaHdr : Byte → Bool) (cfg : RCfg) (O : Oracle α) (s : Bytes) :
    ∀ raw ∈ rawsOf (readFile nmeaHdr cfg O s), ∃ b rest, raw = b :: rest ∧ (b = 0xb5 ∨ b = 0x24 ∨ b = 0xd3) := by
  intro raw h
  obtain ⟨b, rest, e, hp⟩ := (run_slices fileSrc (fun x => x) file_linear nmeaHdr cfg O _ s).2 raw h
  refine ⟨b, rest, e, ?_⟩
  simpa [isPre, or_assoc] using hp

/-- the same two facts through a socket, with `s` = everything the peer sends -/
theorem C07_slices_sock (nmeaHdr : Byte → Bool) (cfg : RCfg) (O : Oracle α) (chunks : List Bytes) :
    Slices (rawsOf (readSock nmeaHdr cfg O chunks)) chunks.flatten := by
  have := (run_slices sockSrc Sock.all sock_linear nmeaHdr cfg O (chunks.flatten.length + 2) (sockInit chunks)).1
  cases chunks <;> simpa [readSock, sockInit, Sock.all] using this

/-- "a zero-length result from the stream is the only end-of-stream signal":
    the byte source reports end-of-stream only when nothing is left … -/
theorem C07_eof_only_when_empty (n : Nat) (s : Bytes) (h : fileRead n s = .eof) : s = [] := by
  unfold fileRead at h
  split at h
  · cases h
  · split at h
    · rename_i hl; exact List.length_eq_zero_iff.mp hl
    · split at h <;> cases h

/-- … a short read consumes whatever was left (`io.BytesIO.read(n)` returns all of it) … -/
theorem C07_short_is_rest (n : Nat) (s : Bytes) (h : fileRead n s = .short) : s.length < n := by
  unfold fileRead at h
  split at h
  · cases h
  · split at h
    · cases h
    · split at h
      · assumption
      · cases h

/-- … a pass ends the iteration only through such an answer of the source … -/
theorem C07_pass_ends_only_on_source_end {σ : Type} (S : Src σ) (nmeaHdr : Byte → Bool) (cfg : RCfg)
    (O : Oracle α) (s : σ) (h : (step S nmeaHdr cfg O s).2 = none) :
    (step S nmeaHdr cfg O s).1 = .eof ∨ (step S nmeaHdr cfg O s).1 = .err .stream :=
  step_none_dead S nmeaHdr cfg O s h

/-- … and a pass that goes on has consumed exactly a non-empty prefix: nothing skipped over, nothing re-read -/
theorem C07_pass_consumes_prefix (nmeaHdr : Byte → Bool) (cfg : RCfg) (O : Oracle α) (s s' : Bytes) (o : Out α)
    (h : step fileSrc nmeaHdr cfg O s = (o, some s')) : ∃ pre, pre ≠ [] ∧ s = pre ++ s' := by
  obtain ⟨pre, h1, h2, _⟩ := step_linear fileSrc (fun x => x) file_linear nmeaHdr cfg O s s' o h
  exact ⟨pre, h1, h2⟩

/-- the iteration terminates: the trace is finite and ends with end-of-stream (or a foreign exception) -/
theorem C07_terminates (nmeaHdr : Byte → Bool) (cfg : RCfg) (O : Oracle α) (s : Bytes) :
    ∃ tr o, readFile nmeaHdr cfg O s = tr ++ [o] ∧ (o = .eof ∨ ∃ p c, o = .crash p c) := by
  apply run_ends fileSrc (fun x => x) file_linear
  · intro s' hs'; cases hs'; omega
  · omega

/-- after fix bb00c73 the former counter-example (zero-size RTCM3 frame then a UBX frame) is read to the end -/
example : rawsOf (readFile (α := Unit) (fun _ => false) ⟨7, false⟩ (fun _ _ => .rejected 0)
      [0xd3, 0x00, 0x00, 0x47, 0xea, 0x4b, 0xb5, 0x62, 0x06, 0x01, 0x00, 0x00, 0x07, 0x1b])
    = [[0xd3, 0x00, 0x00, 0x47, 0xea, 0x4b], [0xb5, 0x62, 0x06, 0x01, 0x00, 0x00, 0x07, 0x1b]] := by decide

end Ubx
