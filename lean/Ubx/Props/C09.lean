import Ubx.Proofs.Consume
import Ubx.Proofs.Policy
import Ubx.Props.C06
/-!
# C09 — a stream cut at any byte yields a prefix of the uncut stream's output

For every stream `s`, cut position `k`, protocol parsers `O` (any verdicts), filter, parsing flag
and non-raising error policy.
-/
namespace Ubx
variable {α : Type}

/-- cutting the stream yields a prefix of the items (policy-free trace) -/
theorem C09_cut_prefix (nmeaHdr : Byte → Bool) (cfg : RCfg) (O : Oracle α) (k : Nat) (s : Bytes) :
    items (readFile nmeaHdr cfg O (s.take k)) <+: items (readFile nmeaHdr cfg O s) := by
  unfold readFile
  have hlen : (s.take k).length + 2 ≤ s.length + 2 := by simp [List.length_take]; omega
  rw [← run_fuel_ge fileSrc (fun x => x) file_linear nmeaHdr cfg O (s.take k) (s.length + 2) hlen]
  exact run_trunc_prefix fileSrc fileSrc _ file_trunc nmeaHdr cfg O _ s (s.take k) (List.take_prefix k s)

/-- the same for the iteration as written, under ERR_IGNORE (0), ERR_LOG (1) or any non-raising value -/
theorem C09_cut_prefix_policy (nmeaHdr : Byte → Bool) (cfg : RCfg) (O : Oracle α) (q : Nat) (hq : q ≠ 2)
    (k : Nat) (s : Bytes) :
    (runP fileSrc nmeaHdr cfg O q ((s.take k).length + 2) (some (s.take k))).items
      <+: (runP fileSrc nmeaHdr cfg O q (s.length + 2) (some s)).items := by
  rw [runP_items _ _ _ _ q hq, runP_items _ _ _ _ q hq]
  exact C09_cut_prefix nmeaHdr cfg O k s

/-- a non-raising policy never raises -/
theorem C09_no_raise {σ : Type} (S : Src σ) (nmeaHdr : Byte → Bool) (cfg : RCfg) (O : Oracle α) (q : Nat) (hq : q ≠ 2)
    (f : Nat) (st : Option σ) : (runP S nmeaHdr cfg O q f st).raised = none := by
  induction f generalizing st with
  | zero => rfl
  | succ f ih =>
    cases st with
    | none => rfl
    | some s =>
      simp only [runP]
      generalize step S nmeaHdr cfg O s = r
      obtain ⟨o, s'⟩ := r
      cases o with
      | eof => rfl
      | crash p c => rfl
      | skip => exact ih s'
      | item p raw m => simp only [PRes.consItem]; exact ih s'
      | err k =>
        by_cases h0 : q = 0
        · simp only [h0, if_true]; have := ih s'; rw [h0] at this; exact this
        · simp only [h0, if_false, hq]
          by_cases h1 : q = 1
          · simp only [h1, if_true, PRes.consCall]; have := ih s'; rw [h1] at this; exact this
          · simp only [h1, if_false]; exact ih s'

/-- never a partially received frame: everything the cut run delivers is delivered, with the same
    bytes and the same parsed value, by the uncut run -/
theorem C09_no_partial (nmeaHdr : Byte → Bool) (cfg : RCfg) (O : Oracle α) (k : Nat) (s : Bytes) :
    ∀ x ∈ items (readFile nmeaHdr cfg O (s.take k)), x ∈ items (readFile nmeaHdr cfg O s) :=
  fun _ hx => (C09_cut_prefix nmeaHdr cfg O k s).subset hx

/-- … and its raw bytes lie wholly inside the part that was received -/
theorem C09_items_inside_cut (nmeaHdr : Byte → Bool) (cfg : RCfg) (O : Oracle α) (k : Nat) (s : Bytes) :
    Slices (rawsOf (readFile nmeaHdr cfg O (s.take k))) (s.take k) :=
  (run_slices fileSrc (fun x => x) file_linear nmeaHdr cfg O _ (s.take k)).1


theorem weave_take_prefix {nh} (segs : List (Seg nh)) (j : Nat) : weave (segs.take j) <+: weave segs := by
  unfold weave
  refine ⟨((segs.drop j).map Seg.bytes).flatten, ?_⟩
  rw [← List.flatten_append, ← List.map_append, List.take_append_drop]

/-- **second sentence of C09**: when the stream is a clean concatenation of frames (and frame-start-free noise), every
    frame lying wholly before the cut — the first `j` segments, for any `j` whose bytes end at or before `k` — is
    delivered by the cut stream exactly as by the uncut one (those its parser accepts and the filter passes), in
    order, before anything else -/
theorem C09_frames_before_cut (nh : Byte → Bool) (cfg : RCfg) (O : Oracle α) (hO : NoCrash O) (segs : List (Seg nh))
    (j k : Nat) (hk : (weave (segs.take j)).length ≤ k) :
    ((segs.take j).filterMap Seg.asFrame).filterMap (deliver cfg O)
      <+: items (readFile nh cfg O ((weave segs).take k)) := by
  obtain ⟨rest, hrest⟩ := weave_take_prefix segs j
  have hcut : ((weave segs).take k).take (weave (segs.take j)).length = weave (segs.take j) := by
    rw [List.take_take, Nat.min_eq_left hk, ← hrest, List.take_left']
    rfl
  have h := C09_cut_prefix nh cfg O (weave (segs.take j)).length ((weave segs).take k)
  rw [hcut, C06_delivers_all_frames nh cfg O hO (segs.take j)] at h
  exact h

/-- non-vacuity: a concrete stream (UBX frame, noise, truncated second frame), cut inside the second frame -/
example : items (readFile (α := Unit) (fun b => b = 0x47) ⟨7, false⟩ (fun _ _ => .rejected 0)
      ([0xb5, 0x62, 0x06, 0x01, 0x00, 0x00, 0x07, 0x1b, 0x00, 0xb5, 0x62, 0x06].take 11))
    = [(.ubx, [0xb5, 0x62, 0x06, 0x01, 0x00, 0x00, 0x07, 0x1b], none)] := by decide

end Ubx
