import Ubx.Proofs.Parse
import Ubx.Generated.Tables
/-!
# C04 — every message the library builds serializes to a well-formed UBX frame
-/
namespace Ubx

/-- however a message is constructed (keywords, payload bytes, no payload — `kw` is arbitrary), `serialize()` is
    sync chars, class, id, LE length of the actual payload, payload, textbook Fletcher checksum -/
theorem C04_construct_wf (ctx : Ctx) (c i : Byte) (modeN : Nat) (bf : Bool) (kw : Kw) (m : Msg)
    (h : construct ctx [c] [i] modeN bf kw = .ok m) :
    m.serialize = frame c i (m.payload.getD []) ∧ WF m.serialize := by
  have hs := construct_wf ctx c i modeN bf kw m h
  have hl := (construct_shape ctx [c] [i] modeN bf kw m h).2.2.1
  exact ⟨hs, c, i, m.payload.getD [], hl, hs⟩

/-- "correct checksum" means the textbook definition, not the code's loop: they coincide for every byte string -/
theorem C04_fletcher_closed_form (bs : Bytes) : calcChecksum bs = fletcherSpec bs := calcChecksum_eq_spec bs

theorem constructNamed_wf (ctx : Ctx) (cn idn : Name) (mode : Nat) (p : Bytes) (m : Msg)
    (hcls : ∀ e ∈ ctx.classes, e.1.length = 1) (hids : ∀ e ∈ ctx.msgids, 2 ≤ e.1.length)
    (h : constructNamed ctx cn idn mode p = .ok m) : WF m.serialize := by
  unfold constructNamed at h
  simp only [bind, Except.bind] at h
  split at h
  · cases h
  · rename_i ab hab
    obtain ⟨cb, ib⟩ := ab
    unfold msgstr2bytes at hab
    split at hab
    · rename_i ce ie hce hie
      cases hab
      have h1 := hcls ce (List.mem_of_find?_eq_some hce)
      have h2 := hids ie (List.mem_of_find?_eq_some hie)
      obtain ⟨c, hc⟩ : ∃ c, ce.1 = [c] := by
        match ce.1, h1 with
        | [c], _ => exact ⟨c, rfl⟩
      obtain ⟨i, hi⟩ : ∃ i, slice ie.1 1 2 = [i] := by
        match ie.1, h2 with
        | a :: b :: rest, _ => exact ⟨b, by simp [slice]⟩
      simp only at h
      rw [hc, hi] at h
      exact (C04_construct_wf ctx c i mode true _ m h).2
    · cases hab

/-- the config helpers build through the same constructor: well-formed, too -/
theorem C04_config_wf (ctx : Ctx) (hcls : ∀ e ∈ ctx.classes, e.1.length = 1) (hids : ∀ e ∈ ctx.msgids, 2 ≤ e.1.length)
    (m : Msg) :
    (∀ l t d, configSet ctx l t d = .ok m → WF m.serialize) ∧
    (∀ l t k, configDel ctx l t k = .ok m → WF m.serialize) ∧
    (∀ l p k, configPoll ctx l p k = .ok m → WF m.serialize) := by
  refine ⟨?_, ?_, ?_⟩
  · intro l t d h
    unfold configSet at h
    split at h
    · cases h
    · simp only [bind, Except.bind] at h
      split at h
      · cases h
      · split at h
        · cases h
        · exact constructNamed_wf ctx _ _ _ _ m hcls hids h
  · intro l t k h
    unfold configDel at h
    split at h
    · cases h
    · simp only [bind, Except.bind] at h
      split at h
      · cases h
      · split at h
        · cases h
        · exact constructNamed_wf ctx _ _ _ _ m hcls hids h
  · intro l p k h
    unfold configPoll at h
    split at h
    · cases h
    · simp only [bind, Except.bind] at h
      repeat (split at h; · cases h)
      exact constructNamed_wf ctx _ _ _ _ m hcls hids h

/-- a frame the library built passes every VALCKSUM test of `parse` (header, length, checksum): whether it is
    *accepted* then only depends on the attribute walk of its own payload (C03 / correspondence) -/
theorem C04_own_output_is_valid (c i : Byte) (p : Bytes) (hp : p.length < 65536) : validFrame (frame c i p) = true := by
  have hlen := frame_length c i p
  obtain ⟨hg, _, _⟩ := parsePayload_frame c i p hp
  have e02 : slice (frame c i p) 0 2 = [0xb5, 0x62] := by rw [frame_cons]; simp [slice]
  have e23 : slice (frame c i p) 2 3 = [c] := by rw [frame_cons]; simp [slice]
  have e34 : slice (frame c i p) 3 4 = [i] := by rw [frame_cons]; simp [slice]
  have e46 : slice (frame c i p) 4 6 = toLE 2 p.length := by rw [frame_cons, toLE2]; simp [slice]
  unfold validFrame
  rw [e02, e23, e34, e46, hg, fromLE_toLE 2 _ (by omega), hlen]
  have hck : pySlice (frame c i p) (((p.length + 8 : Nat) : Int) - 2) ((p.length + 8 : Nat) : Int)
      = fletcherSpec ([c, i] ++ toLE 2 p.length ++ p) := by
    have : (((p.length + 8 : Nat) : Int) - 2) = ((p.length + 6 : Nat) : Int) := by omega
    rw [this, pySlice_nat _ _ _ (by omega) (by omega), frame_cons, slice6]
    simp [slice, fletcherSpec]
  rw [hck, calcChecksum_eq_spec]
  simp

/-! ### the three ways of naming a message type: table obligations on the regenerated tables -/

/-- every class key is one byte, every message key two or three -/
theorem C04_table_key_shapes :
    (Gen.ctx.classes.all (fun e => e.1.length == 1) && Gen.ctx.msgids.all (fun e => e.1.length == 2 || e.1.length == 3)) = true := by
  decide +kernel

/-- names → bytes inverts the id table: for every two-byte message id whose class is named,
    `msgstr2bytes(className, msgName)` gives back exactly that class and id byte -/
theorem C04_names_invert_ids :
    (Gen.ctx.msgids.all (fun e =>
      e.1.length != 2 ||
      (match lookupB (e.1.take 1) Gen.ctx.classes with
       | none => true
       | some cn =>
         -- a name shared by several ids resolves to the first id registered under it
         (match Gen.ctx.msgids.find? (fun x => x.2 == e.2) with
          | some first => decide (msgstr2bytes Gen.ctx cn e.2 = .ok (e.1.take 1, slice first.1 1 2))
          | none => false)))) = true := by
  decide +kernel

/-- ints → bytes is `bytes([c])`, `bytes([i])` for 0 ≤ c, i ≤ 255 and refused otherwise -/
theorem C04_ints_are_bytes (c i : Nat) (hc : c < 256) (hi : i < 256) :
    msgclass2bytes Gen.ctx c i = .ok ([UInt8.ofNat c], [UInt8.ofNat i]) := by
  have hatt : lookup cU Gen.ctx.atttype = some [Kind.int] := by decide +kernel
  unfold msgclass2bytes
  simp only [bind, Except.bind, val2bytes, atttyp, hatt, PyVal.kind?, PyVal.asInt?]
  have e1 : intToBytes (c : Int) 1 false = .ok [UInt8.ofNat c] := by
    unfold intToBytes
    simp only [Bool.false_eq_true, if_false]
    rw [if_pos (by constructor <;> omega)]
    simp [toLE, Nat.mod_eq_of_lt hc]
  have e2 : intToBytes (i : Int) 1 false = .ok [UInt8.ofNat i] := by
    unfold intToBytes
    simp only [Bool.false_eq_true, if_false]
    rw [if_pos (by constructor <;> omega)]
    simp [toLE, Nat.mod_eq_of_lt hi]
  simp [cU, cX, cC, cI, isIntLetter, cE, cL, attsiz, e1, e2, pure, Except.pure]

end Ubx
