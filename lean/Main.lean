import Ubx.Model.Message
import Ubx.Model.Sources
import Ubx.Model.Helpers
import Ubx.Generated.Tables
import Ubx.Model.PyHosts
import Ubx.Model.PyReaderHosts
import Ubx.Model.PyConfigHosts
import Ubx.Model.PyWalkHosts
import Ubx.Model.PyDoHosts
import Ubx.Model.PyCfgKeyHosts
import Ubx.Model.PyStrHosts
/-!
# Line-protocol driver: one operation per input line, one answer per output line.
The Python harness (tools/harness) sends the same operations to the real pyubx2 and diffs.
-/
open Ubx

def hexDigit (n : Nat) : Char := if n < 10 then Char.ofNat (48 + n) else Char.ofNat (87 + n)

def hexOf (bs : Bytes) : String :=
  String.ofList (bs.flatMap (fun b => [hexDigit (b.toNat / 16), hexDigit (b.toNat % 16)]))

def unhexC (c : Char) : Option Nat :=
  if '0' ≤ c ∧ c ≤ '9' then some (c.toNat - 48)
  else if 'a' ≤ c ∧ c ≤ 'f' then some (c.toNat - 87)
  else if 'A' ≤ c ∧ c ≤ 'F' then some (c.toNat - 55)
  else none

partial def unhexL : List Char → Option Bytes
  | [] => some []
  | a :: b :: rest => do
    let x ← unhexC a
    let y ← unhexC b
    let r ← unhexL rest
    pure (UInt8.ofNat (x * 16 + y) :: r)
  | _ => none

/-- `-` stands for the empty byte string -/
def unhex (s : String) : Option Bytes := if s = "-" then some [] else unhexL s.toList

def hexOrDash (bs : Bytes) : String := if bs.isEmpty then "-" else hexOf bs

partial def nameBytes (n : Nat) (acc : List Nat := []) : List Nat :=
  if n = 0 then acc else nameBytes (n / 256) (n % 256 :: acc)

def nameStr (n : Name) : String :=
  String.ofList ((nameBytes n).map Char.ofNat)   -- names are ASCII in practice

def encName (s : String) : Name := nm s

def pad2 (i : Nat) : String := if i < 10 then s!"0{i}" else toString i

/-- rendered through the model's `renderName` (the function `C18_att2idx_att2name` is about), so that every attribute
    name compared with the implementation validates it -/
def anameStr (a : AName) : String :=
  String.ofList ((renderName (nameBytes a.base) a.idx).map Char.ofNat)

def fhex (n : Nat) : String := if F64.isNaN n then "nan" else
  let ds := (Nat.toDigits 16 n)
  String.ofList (List.replicate (16 - ds.length) '0' ++ ds)

def hex16 (n : Nat) : String :=
  let ds := (Nat.toDigits 16 n)
  String.ofList (List.replicate (16 - ds.length) '0' ++ ds)

def valStr : PyVal → String
  | .int v => s!"i{v}"
  | .bool b => if b then "bT" else "bF"
  | .float b => if F64.isNaN b then "fnan" else "f" ++ hex16 b
  | .str s => "s" ++ hexOrDash s
  | .bytes s => "y" ++ hexOrDash s
  | .ints l => "l" ++ ",".intercalate (l.map (fun x => match x with | some i => toString i | none => "?"))
  | .none => "n"
  | .other => "o"

def parseVal (s : String) : Option PyVal :=
  match s.toList with
  | 'i' :: r => (String.ofList r).toInt?.map PyVal.int
  | ['b', 'T'] => some (.bool true)
  | ['b', 'F'] => some (.bool false)
  | 'f' :: r =>
    if String.ofList r = "nan" then some (.float F64.nanBits)
    else (unhexL r).map (fun bs => PyVal.float (fromBE bs))
  | 's' :: r => (unhex (String.ofList r)).map PyVal.str
  | 'y' :: r => (unhex (String.ofList r)).map PyVal.bytes
  | 'l' :: r =>
    let str := String.ofList r
    if str = "" then some (.ints [])
    else some (.ints ((str.splitOn ",").map (fun t => if t = "?" then none else t.toInt?)))
  | ['n'] => some .none
  | ['o'] => some .other
  | _ => none

def identStr : Ident → String
  | .known n => nameStr n
  | .nominal => "NOMINAL"

def msgDump (m : Msg) : String :=
  let attrs := ",".intercalate (m.env.map (fun (n, v) => anameStr n ++ "=" ++ valStr v))
  s!"cls={hexOrDash m.cls} id={hexOrDash m.id} mode={m.mode.toNat} payload={match m.payload with | some p => hexOrDash p | none => "None"} len={hexOrDash m.length} ck={hexOrDash m.checksum} ident={identStr (m.identity Gen.ctx)} attrs=[{attrs}]"

def fullDump (m : Msg) : String :=
  let strs := match m.strExc with | some e => toString e | none => "ok"
  let rep := match reprEval Gen.ctx m with
    | .ok m' => "ok:" ++ hexOf m'.serialize
    | .error e => "err:" ++ toString e
  s!"ok {msgDump m} ser={hexOf m.serialize} str={strs} repr={rep}"

def resDump (r : R Msg) : String :=
  match r with
  | .ok m => fullDump m
  | .error e => s!"err {e}"

/-- `name:1.2=val` -/
def parseKw (tok : String) : Option (AName × PyVal) :=
  match tok.splitOn "=" with
  | [lhs, rhs] =>
    let (base, idx) := match lhs.splitOn ":" with
      | [b] => (b, [])
      | [b, is] => (b, if is = "" then [] else (is.splitOn ".").map (fun t => t.toNat!))
      | _ => (lhs, [])
    (parseVal rhs).map (fun v => (⟨encName base, idx⟩, v))
  | _ => none

def parseTy (s : String) : Ty :=
  if s = "CH" then .ch
  else
    let cs := s.toList
    let letter := (cs.headD (Char.ofNat 0)).toNat
    let digits := (cs.drop 1).take 3
    match (String.ofList digits).toNat? with
    | some n => .t letter n
    | none => .malformed letter

def tyStr : Ty → String
  | .ch => "CH"
  | .t l n => s!"{Char.ofNat l}{n}"
  | .malformed l => s!"{Char.ofNat l}?"

def rbytes (r : R Bytes) : String := match r with | .ok b => "ok " ++ hexOrDash b | .error e => s!"err {e}"

def protoStr : Proto → String | .ubx => "ubx" | .nmea => "nmea" | .rtcm => "rtcm"

/-- errors are printed as the exception type the real reader reports -/
def ekindStr : EKind → String
  | .stream => "UBXStreamError"
  | .unknownHdr => "UBXParseError"
  | .rejected .ubx c => toString (Exc.ofCode c)
  | .rejected .nmea c => s!"N{c}"
  | .rejected .rtcm c => s!"R{c}"

def outStr : Out String → String
  | .eof => "eof"
  | .skip => "skip"
  | .err k => "err:" ++ ekindStr k
  | .item p raw m => s!"item:{protoStr p}:{hexOf raw}:{m.getD "None"}"
  | .crash p c => s!"crash:{protoStr p}:{c}"

/-- verdict table entries `<proto>:<rawhex>=<ok|rN|cN>` -/
def parseVerdicts (toks : List String) : List (Proto × Bytes × Verdict String) :=
  toks.filterMap (fun t =>
    match t.splitOn "=" with
    | [lhs, v] =>
      match lhs.splitOn ":" with
      | [p, h] =>
        let proto := if p = "nmea" then Proto.nmea else if p = "rtcm" then Proto.rtcm else Proto.ubx
        match unhex h with
        | some raw =>
          let verdict : Verdict String :=
            match v.toList with
            | 'r' :: r => .rejected ((String.ofList r).toNat!)
            | 'c' :: r => .crash ((String.ofList r).toNat!)
            | ['n'] => .ok "None"      -- the parser returned None without raising
            | _ => .ok "P"
          some (proto, raw, verdict)
        | none => none
      | _ => none
    | _ => none)

def mkOracle (msgmode validate : Nat) (bf : Bool) (tbl : List (Proto × Bytes × Verdict String)) : Oracle String :=
  fun p raw =>
    match p with
    | .ubx =>
      match parse Gen.ctx msgmode validate bf raw with
      | .ok m => .ok ("{" ++ msgDump m ++ "}")
      | .error e => if Gen.ctx.readCatch.contains e then .rejected e.code else .crash e.code
    | _ =>
      match tbl.find? (fun e => e.1 == p && e.2.1 == raw) with
      | some e => e.2.2
      | none => .crash 999   -- the harness did not supply a verdict: always a visible difference

def splitChunks (s : Bytes) : List Nat → List Bytes
  | [] => if s.isEmpty then [] else [s]
  | n :: ns => if s.isEmpty then [] else s.take n :: splitChunks (s.drop n) ns

def idxStr : Idx → String
  | .zero => "0"
  | .one i => toString i
  | .many is => "(" ++ ",".intercalate (is.map toString) ++ ")"

mutual
partial def itemStr : Item → String
  | .attr n ty sc => s!"A({nameStr n},{tyStr ty},{match sc with | .one => "1" | .int k => s!"i{k}" | .flt b => "f" ++ hex16 b})"
  | .bits n ty fl => s!"B({nameStr n},{tyStr ty},[{",".intercalate (fl.map (fun (k, t) => nameStr k ++ ":" ++ tyStr t))}])"
  | .group n c its => s!"G({nameStr n},{match c with | .fixed k => s!"#{k}" | .var => "None" | .named a => "@" ++ nameStr a},[{itemsStr its}])"
partial def itemsStr (its : List Item) : String := ",".intercalate (its.map itemStr)
end

def tableByName (t : String) : List (Name × Defn) :=
  if t = "get" then Gen.ctx.get else if t = "set" then Gen.ctx.set else Gen.ctx.poll

def toNatD (s : String) : Nat := s.toNat?.getD 0
def toIntD (s : String) : Int := s.toInt?.getD 0

def parseCfgKey (s : String) : CfgKey :=
  match s.toList with
  | '#' :: r => .byId ((String.ofList r).toNat!)
  | _ => .byName (encName s)

/-! ### `pyl-…` operations: the same questions answered by *interpreting the code of the working tree*
(`Gen.Code.fn_*` under the PyLite semantics) instead of by the hand model — compared with CPython by the harness, so
the PyLite semantics and the translator are themselves checked against Python on every run. -/

def pylFuel : Nat := 100000

def excStr {ω : Type} : Py.V ω → String
  | .exc c _ => if c = Py.xFuel then "diverges" else if c = Py.xUnsupported then "unsupported" else "err " ++ nameStr c
  | _ => "err ?"

def pylHelper : Py.Host Empty Unit := Py.helperHost (Py.globLookup Gen.Code.globals)

/-! ### `pyl-readp`: the translated reader (`__next__` → `read` → `_parse_*` / `_do_error`) *run* under PyLite -/

def nmeaErrNames : List Name := ["NMEAMessageError", "NMEATypeError", "NMEAParseError", "NMEAStreamError"].map nm
def rtcmErrNames : List Name := ["RTCMMessageError", "RTCMParseError", "RTCMStreamError", "RTCMTypeError"].map nm

def pylRej : Proto → Nat → Name
  | .ubx, c => Py.excName (Exc.ofCode c)
  | .nmea, c => nmeaErrNames.getD c (nm "ForeignNmeaError")
  | .rtcm, c => rtcmErrNames.getD c (nm "ForeignRtcmError")

def pylCrash : Proto → Nat → Name
  | .ubx, _ => nm "CrashUbx"
  | .nmea, _ => nm "CrashNmea"
  | .rtcm, _ => nm "CrashRtcm"

def excToken (c : Name) (_a : Nat) : String :=
  match nmeaErrNames.idxOf? c with
  | some i => s!"N{i}"
  | none =>
    match rtcmErrNames.idxOf? c with
    | some i => s!"R{i}"
    | none => nameStr c

def pylDrain {σ : Type} (E : Py.REnv σ String) (F : Nat) : Nat → Py.RSt σ → List String → List String × String × Py.RSt σ
  | 0, st, acc => (acc.reverse, "pyl-budget", st)
  | n+1, st, acc =>
    match Py.runFn (Py.h3 E F) F Gen.Code.fn_UBXReader___next__ [.host .self] st with
    | (.ok (.tuple [.bytes raw, p]), st') =>
      let proto := match raw.head? with
        | some 0xb5 => "ubx" | some 0x24 => "nmea" | some 0xd3 => "rtcm" | _ => "?"
      let ps := match p with
        | .none => "None"
        | .host (.parsed m) => m
        | _ => "pyl-bad-parsed"
      pylDrain E F n st' (s!"{proto}:{hexOf raw}:{ps}" :: acc)
    | (.ok _, st') => (acc.reverse, "pyl-bad-value", st')
    | (.error (.exc c a), st') =>
      if c = Py.xStopIteration then (acc.reverse, "", st')
      else if c = nm "CrashUbx" then (acc.reverse, s!"crashed=ubx:{a}", st')
      else if c = nm "CrashNmea" then (acc.reverse, s!"crashed=nmea:{a}", st')
      else if c = nm "CrashRtcm" then (acc.reverse, s!"crashed=rtcm:{a}", st')
      else if Py.excName .ubxParse = c || Py.excName .ubxMessage = c || Py.excName .ubxType = c || Py.excName .ubxStream = c
              || nmeaErrNames.contains c || rtcmErrNames.contains c then (acc.reverse, s!"raised={excToken c a}", st')
      else (acc.reverse, s!"pyl-error:{nameStr c}", st')
    | (.error _, st') => (acc.reverse, "pyl-error:non-exception", st')

def pylReadp {σ : Type} (S : Src σ) (s0 : σ) (cfg : RCfg) (O : Oracle String) (q : Nat) (budget : Nat) : String :=
  let E : Py.REnv σ String := { S := S, cfg := cfg, O := O, q := q, hasHandler := true, rej := pylRej, crash := pylCrash }
  let (items, fin, st) := pylDrain E budget budget ⟨some s0, []⟩ []
  let calls := ",".intercalate (st.calls.map (fun ca => excToken ca.1 ca.2))
  let raised := if fin.startsWith "raised=" then (fin.drop 7).toString else "none"
  let crashed := if fin.startsWith "crashed=" then (fin.drop 8).toString else if fin = "" || fin.startsWith "raised=" then "none" else fin
  s!"items=[{" ".intercalate items}] calls=[{calls}] raised={raised} crashed={crashed}"


def pylCfgOut (r : Py.X Py.CO (Py.V Py.CO)) : String :=
  match r with
  | .ok (.host (.msg m)) => resDump (.ok m)
  | .ok _ => "bad-value"
  | .error e => excStr e

/-! ### `pyl-construct`: the constructor's attribute walk done by the *translated* walker methods, interpreted together
(`recHost`: `_set_attribute` → `_set_attribute_group` / `_set_attribute_single` / `_calc_num_repeats` → `_set_attribute` …);
`_do_attributes` as written drives them; definition lookup and length / checksum are the model's (`_get_dict`, `_do_len_checksum` answered by the host) -/

def allExcs : List Exc := [.ubxParse, .ubxMessage, .ubxType, .ubxStream, .indexE, .typeE, .valueE, .overflowE, .attributeE,
  .structE, .keyE, .zeroDivE, .unboundLocalE, .unicodeE, .memoryE]
def excOfName (n : Name) : Option Exc := allExcs.find? (fun e => Py.excName e == n)

def pylConstruct (cls id : Bytes) (modeN : Nat) (bf : Bool) (kw : Kw) : String :=
  match Mode.ofNat? modeN with
  | none => resDump (.error .ubxMessage)
  | some mode =>
    let wc := walkCtx Gen.ctx cls id mode bf kw
    let H := Py.doHost Gen.ctx cls id mode kw (Py.recHost wc cls id modeN pylFuel 64)
    match Py.runFn H pylFuel Gen.Code.fn_UBXMessage__do_attributes [.host .self, .host .kwargs] ⟨some [], [], none⟩ with
    | (.ok _, st) =>
      (match st.lenck with
       | some lc => resDump (.ok { cls := cls, id := id, mode := mode, payload := st.payload, length := lc.1, checksum := lc.2,
                                   parsebf := bf, env := st.env, immutable := true })
       | none => "bad-value")
    | (.error (.exc c _), _) =>
      if c = Py.xUnsupported then "unsupported" else if c = Py.xFuel then "diverges"
      else match excOfName c with
        | some e => resDump (.error e)
        | none => "pyl-error:" ++ nameStr c
    | (.error _, _) => "pyl-error:non-exception"

/-- the message a `parse …` / `construct …` line denotes -/
def msgOf (toks : List String) : Option (R Msg) :=
  match toks with
  | ["parse", mode, val, bf, h] => (unhex h).map (fun b => parse Gen.ctx (toNatD mode) (toNatD val) (bf = "1") b)
  | "construct" :: cls :: id :: mode :: bf :: kind :: rest =>
    (match unhex cls, unhex id with
     | some c, some i =>
       let kw : Option Kw :=
         if kind = "E" then some .empty
         else if kind = "P" then (rest.head?.bind unhex).map Kw.payload
         else
           let kws := rest.map parseKw
           if kws.all Option.isSome then some (.attrs (kws.filterMap (fun x => x))) else none
       kw.map (fun k => construct Gen.ctx c i (toNatD mode) (bf = "1") k)
     | _, _ => none)
  | _ => none

/-- `pyl-str …`: the translated `__str__` run on the model's message -/
def pylStr (m : Msg) : String :=
  let ident := m.identity Gen.ctx
  let c : Py.StrCfg := { cls := m.cls, id := m.id, payload := m.payload,
                         nominal := (match ident with | .nominal => true | _ => false),
                         monver := (match ident with | .known n => n == 0x4d4f4e2d564552 | _ => false),
                         npriv := 9, env := m.env }
  match (Py.runFn (Py.strHost c) pylFuel Gen.Code.fn_UBXMessage___str__ [.host .self] ()).1 with
  | .ok _ => "str=ok"
  | .error (.exc cl _) => if cl = Py.xUnsupported then "unsupported" else if cl = Py.xFuel then "diverges" else "str=" ++ nameStr cl
  | .error _ => "pyl-error:non-exception"

def handlePyl (toks : List String) : String :=
  match toks with
  | ["pyl-cksum", h] =>
    (match unhex h with
     | some b => (match (Py.runFn pylHelper pylFuel Gen.Code.fn_calc_checksum [.bytes b] ()).1 with
        | .ok (.bytes r) => hexOf r | .ok _ => "bad-value" | .error e => excStr e)
     | none => "bad-op")
  | ["pyl-isvalid", h] =>
    (match unhex h with
     | some b => (match (Py.runFn pylHelper pylFuel Gen.Code.fn_isvalid_checksum [.bytes b] ()).1 with
        | .ok (.bool r) => toString r | .ok _ => "bad-value" | .error e => excStr e)
     | none => "bad-op")
  | ["pyl-inputmode", h] =>
    (match unhex h with
     | some b => (match (Py.runFn pylHelper pylFuel Gen.Code.fn_getinputmode [.bytes b] ()).1 with
        | .ok (.int r) => toString r | .ok _ => "bad-value" | .error e => excStr e)
     | none => "bad-op")
  | ["pyl-protocol", h] =>
    (match unhex h with
     | some b => (match (Py.runFn pylHelper pylFuel Gen.Code.fn_protocol [.bytes b] ()).1 with
        | .ok (.int r) => s!"ok {r}" | .ok _ => "bad-value" | .error e => excStr e)
     | none => "bad-op")
  | ["pyl-getbits", h, m] =>
    (match unhex h with
     | some b => (match (Py.runFn pylHelper pylFuel Gen.Code.fn_get_bits [.bytes b, .int (toNatD m)] ()).1 with
        | .ok (.int r) => s!"ok {r}" | .ok _ => "bad-value" | .error e => excStr e)
     | none => "bad-op")
  | ["pyl-parse", mode, val, bf, h] =>
    (match unhex h with
     | some b =>
       (match (Py.runFn (Py.parseHost Gen.ctx) pylFuel Gen.Code.fn_UBXReader_parse
                [.bytes b, .int (toNatD mode), .int (toNatD val), .bool (bf = "1")] ()).1 with
        | .ok (.host m) => resDump (.ok m) | .ok _ => "bad-value" | .error e => excStr e)
     | none => "bad-op")
  | "pyl-readp" :: src :: q :: filter :: parsing :: mode :: val :: bf :: h :: verdicts =>
    (match unhex h with
     | some s =>
       let cfg : RCfg := ⟨toNatD filter, parsing = "1"⟩
       let O := mkOracle (toNatD mode) (toNatD val) (bf = "1") (parseVerdicts verdicts)
       let budget := s.length + 3
       if src = "file" then pylReadp fileSrc s cfg O (toNatD q) budget
       else
         let lens := (((src.drop 5).toString.replace "!" "").splitOn ",").filter (· ≠ "") |>.map toNatD
         pylReadp sockSrc (sockInit (splitChunks s lens)) cfg O (toNatD q) budget
     | none => "bad-op")
  | "pyl-construct" :: cls :: id :: mode :: bf :: kind :: rest =>
    (match unhex cls, unhex id with
     | some c, some i =>
       let kw : Option Kw :=
         if kind = "E" then some .empty
         else if kind = "P" then (rest.head?.bind unhex).map Kw.payload
         else
           let kws := rest.map parseKw
           if kws.all Option.isSome then some (.attrs (kws.filterMap (fun x => x))) else none
       (match kw with
        | some k => pylConstruct c i (toNatD mode) (bf = "1") k
        | none => "bad-op")
     | _, _ => "bad-op")
  | "pyl-str" :: rest =>
    (match msgOf rest with
     | some (.ok m) => pylStr m
     | some (.error _) => "nomsg"
     | none => "bad-op")
  | ["pyl-cfgkey", k] =>
    (match (Py.runFn (Py.ckHost Gen.ctx) pylFuel Gen.Code.fn_cfgkey2name [.int (toNatD k)] ()).1 with
     | .ok (.tuple [.str n, .host (.ty t)]) => s!"ok {nameStr n} {tyStr t}"
     | .ok _ => "bad-value"
     | .error e => excStr e)
  | "pyl-cfgset" :: layers :: txn :: rest =>
    let items := rest.map (fun t => match t.splitOn "=" with
      | [k, v] => (parseVal v).map (fun pv => (parseCfgKey k, pv))
      | _ => none)
    if items.all Option.isSome then
      pylCfgOut (Py.runFn (Py.cfgHost Gen.ctx) pylFuel Gen.Code.fn_UBXMessage_config_set
        [.int (toIntD layers), .int (toIntD txn), .tuple ((items.filterMap (fun x => x)).map Py.encItem)] ()).1
    else "bad-op"
  | "pyl-cfgdel" :: layers :: txn :: rest =>
    pylCfgOut (Py.runFn (Py.cfgHost Gen.ctx) pylFuel Gen.Code.fn_UBXMessage_config_del
      [.int (toIntD layers), .int (toIntD txn), .tuple ((rest.map parseCfgKey).map Py.encKey)] ()).1
  | "pyl-cfgpoll" :: layer :: pos :: rest =>
    pylCfgOut (Py.runFn (Py.cfgHost Gen.ctx) pylFuel Gen.Code.fn_UBXMessage_config_poll
      [.int (toIntD layer), .int (toIntD pos), .tuple ((rest.map parseCfgKey).map Py.encKey)] ()).1
  | _ => "bad-op"

def handle (line : String) : String :=
  let toks := (line.splitOn " ").filter (· ≠ "")
  if (toks.head?.getD "").startsWith "pyl-" then handlePyl toks else
  match toks with
  | ["cksum", h] => (match unhex h with | some b => hexOf (calcChecksum b) | none => "bad-op")
  | ["isvalid", h] => (match unhex h with | some b => toString (isValidChecksum b) | none => "bad-op")
  | ["parse", mode, val, bf, h] =>
    (match unhex h with
     | some b => resDump (parse Gen.ctx (toNatD mode) (toNatD val) (bf = "1") b)
     | none => "bad-op")
  | "construct" :: cls :: id :: mode :: bf :: kind :: rest =>
    (match unhex cls, unhex id with
     | some c, some i =>
       let kw : Option Kw :=
         if kind = "E" then some .empty
         else if kind = "P" then (rest.head?.bind unhex).map Kw.payload
         else
           let kws := rest.map parseKw
           if kws.all Option.isSome then some (.attrs (kws.filterMap (fun x => x))) else none
       (match kw with
        | some k => resDump (construct Gen.ctx c i (toNatD mode) (bf = "1") k)
        | none => "bad-op")
     | _, _ => "bad-op")
  | ["addr", "str", c, i] =>
    (match msgstr2bytes Gen.ctx (encName c) (encName i) with
     | .ok (a, b) => s!"ok {hexOrDash a} {hexOrDash b}" | .error e => s!"err {e}")
  | ["addr", "int", c, i] =>
    (match msgclass2bytes Gen.ctx (toIntD c) (toIntD i) with
     | .ok (a, b) => s!"ok {hexOrDash a} {hexOrDash b}" | .error e => s!"err {e}")
  | ["setattr", mode, val, bf, h] | ["delattr", mode, val, bf, h] =>
    (match unhex h with
     | some b =>
       match parse Gen.ctx (toNatD mode) (toNatD val) (bf = "1") b with
       | .ok m =>
         (match m.setattr ⟨0, []⟩ .none, m.delattr ⟨0, []⟩ with
          | .error e1, .error e2 => s!"refused {e1} {e2} ser={hexOf m.serialize}"
          | _, _ => "accepted")
       | .error e => s!"err {e}"
     | none => "bad-op")
  | ["v2b", ty, v] =>
    (match parseVal v with | some pv => rbytes (val2bytes Gen.ctx.atttype pv (parseTy ty)) | none => "bad-op")
  | ["b2v", ty, h] =>
    (match unhex h with
     | some b => (match bytes2val b (parseTy ty) with | .ok v => "ok " ++ valStr v | .error e => s!"err {e}")
     | none => "bad-op")
  | ["nomval", ty] => (match nomval (parseTy ty) with | .ok v => "ok " ++ valStr v | .error e => s!"err {e}")
  | ["attsiz", ty] => (match attsiz (parseTy ty) with | .ok v => s!"ok {v}" | .error e => s!"err {e}")
  | ["inputmode", h] => (match unhex h with | some b => toString (getinputmode Gen.ctx b).toNat | none => "bad-op")
  | ["protocol", h] =>
    (match unhex h with
     | some b => (match protocol Gen.ctx.nmeaHdr2 b with | .ok v => s!"ok {v}" | .error e => s!"err {e}")
     | none => "bad-op")
  | "str" :: rest =>
    (match msgOf rest with
     | some (.ok m) => "str=" ++ (match m.strExc with | some e => toString e | none => "ok")
     | some (.error _) => "nomsg"
     | none => "bad-op")
  | ["cfgkey", k] =>
    (match cfgkey2name Gen.ctx (toNatD k) with
     | .ok (n, t) => s!"ok {nameStr n} {tyStr t}" | .error e => s!"err {e}")
  | ["cfgname", n] =>
    (match cfgname2key Gen.ctx (encName n) with
     | .ok (k, t) => s!"ok {k} {tyStr t}" | .error e => s!"err {e}")
  | "cfgset" :: layers :: txn :: rest =>
    let items := rest.map (fun t => match t.splitOn "=" with
      | [k, v] => (parseVal v).map (fun pv => (parseCfgKey k, pv))
      | _ => none)
    if items.all Option.isSome then resDump (configSet Gen.ctx (toIntD layers) (toIntD txn) (items.filterMap (fun x => x))) else "bad-op"
  | "cfgdel" :: layers :: txn :: rest =>
    resDump (configDel Gen.ctx (toIntD layers) (toIntD txn) (rest.map parseCfgKey))
  | "cfgpoll" :: layer :: pos :: rest =>
    resDump (configPoll Gen.ctx (toIntD layer) (toIntD pos) (rest.map parseCfgKey))
  | "read" :: src :: filter :: parsing :: mode :: val :: bf :: h :: verdicts =>
    (match unhex h with
     | some s =>
       let cfg : RCfg := ⟨toNatD filter, parsing = "1"⟩
       let O := mkOracle (toNatD mode) (toNatD val) (bf = "1") (parseVerdicts verdicts)
       let hdr : Byte → Bool := fun b => Gen.ctx.nmeaHdr2.contains b
       let fuel := s.length + 2
       let tr : List (Out String) :=
         if src = "file" then run fileSrc hdr cfg O fuel (some s)
         else
           let lens := (((src.drop 5).toString.replace "!" "").splitOn ",").filter (· ≠ "") |>.map toNatD
           run sockSrc hdr cfg O fuel (some (sockInit (splitChunks s lens)))
       " ".intercalate (tr.map outStr)
     | none => "bad-op")
  | "readp" :: src :: q :: filter :: parsing :: mode :: val :: bf :: h :: verdicts =>
    (match unhex h with
     | some s =>
       let cfg : RCfg := ⟨toNatD filter, parsing = "1"⟩
       let O := mkOracle (toNatD mode) (toNatD val) (bf = "1") (parseVerdicts verdicts)
       let hdr : Byte → Bool := fun b => Gen.ctx.nmeaHdr2.contains b
       let fuel := s.length + 2
       let r : PRes String :=
         if src = "file" then runP fileSrc hdr cfg O (toNatD q) fuel (some s)
         else
           let lens := (((src.drop 5).toString.replace "!" "").splitOn ",").filter (· ≠ "") |>.map toNatD
           runP sockSrc hdr cfg O (toNatD q) fuel (some (sockInit (splitChunks s lens)))
       let its := " ".intercalate (r.items.map (fun (p, raw, m) => s!"{protoStr p}:{hexOf raw}:{m.getD "None"}"))
       let calls := ",".intercalate (r.calls.map ekindStr)
       let raised := match r.raised with | some k => ekindStr k | none => "none"
       let crashed := match r.crashed with | some (p, c) => s!"{protoStr p}:{c}" | none => "none"
       s!"items=[{its}] calls=[{calls}] raised={raised} crashed={crashed}"
     | none => "bad-op")
  | ["frames", h] =>
    (match unhex h with
     | some s =>
       let hdr : Byte → Bool := fun b => Gen.ctx.nmeaHdr2.contains b
       " ".intercalate ((frames fileSrc hdr (s.length + 2) (some s)).map (fun (p, raw) => s!"{protoStr p}:{hexOf raw}"))
     | none => "bad-op")
  | ["sockread", lens, ops, h] =>
    -- exercise SocketWrapper.read / readline directly: ops = comma list of n (read n) or L (readline)
    (match unhex h with
     | some s =>
       let ls := (lens.splitOn ",").filter (· ≠ "") |>.map toNatD
       let st0 := sockInit (splitChunks s ls)
       let rec go (ops : List String) (st : Option Sock) (acc : List String) : List String :=
         match ops with
         | [] => acc.reverse
         | o :: os =>
           match st with
           | none => go os none ("dead" :: acc)
           | some st =>
             let r := if o = "L" then sockLine st else sockRead (toNatD o) st
             match r with
             | .ok d st' => go os (some st') (("ok:" ++ hexOrDash d) :: acc)
             | .eof => go os none ("eof" :: acc)
             | .short => go os none ("short" :: acc)
       " ".intercalate (go ((ops.splitOn ",").filter (· ≠ "")) (some st0) [])
     | none => "bad-op")
  | ["f64", "mul", a, b] => fhex (F64.mul (toNatD a) (toNatD b))
  | ["f64", "div", a, b] => (match F64.div (toNatD a) (toNatD b) with | some q => fhex q | none => "zerodiv")
  | ["f64", "add", a, b] => fhex (F64.add (toNatD a) (toNatD b))
  | ["f64", "round12", a] => fhex (F64.round12 (toNatD a))
  | ["f64", "ofint", a] => (match F64.ofInt (toIntD a) with | some q => hex16 q | none => "overflow")
  | ["f64", "trunc", a] => (match F64.trunc (toNatD a) with | .ok q => toString q | .error e => toString e)
  | ["f64", "tof32", a] => (match F64.toF32 (toNatD a) with | some q => toString q | none => "overflow")
  | ["f64", "off32", a] => fhex (F64.ofF32 (toNatD a))
  | ["scaleup", ty, sc, h] =>
    -- round(bytes2val(h, ty) * sc, 12)
    (match unhex h, parseVal sc with
     | some b, some s =>
       let scale : Scale := match s with | .int k => .int k | .float bits => .flt bits | _ => .one
       (match bytes2val b (parseTy ty) with
        | .ok v => (match scaleUp v scale with | .ok r => "ok " ++ valStr r | .error e => s!"err {e}")
        | .error e => s!"err {e}")
     | _, _ => "bad-op")
  | ["scaledown", sc, v] =>
    (match parseVal v, parseVal sc with
     | some pv, some s =>
       let scale : Scale := match s with | .int k => .int k | .float bits => .flt bits | _ => .one
       (match scaleDown pv scale with | .ok r => s!"ok {r}" | .error e => s!"err {e}")
     | _, _ => "bad-op")
  | ["itow2utc", a] => (match itow2utc (toIntD a) with | .ok v => s!"ok {v}" | .error e => s!"err {e}")
  | ["utc2itow", a] => (match utc2itow (toNatD a) with | .ok (w, i) => s!"ok {w} {i}" | .error e => s!"err {e}")
  | ["val2sphp", a, b] => (match val2sphp (toNatD a) (toNatD b) with | .ok (s, h) => s!"ok {s} {h}" | .error e => s!"err {e}")
  | ["getbits", h, m] =>
    (match unhex h with
     | some b => (match getBits b (toNatD m) with
        | some (.ok v) => s!"ok {v}" | some (.error e) => s!"err {e}" | none => "diverges")
     | none => "bad-op")
  | ["att2idx", h] => (match unhex h with | some b => idxStr (att2idx (b.map (·.toNat))) | none => "bad-op")
  | ["att2name", h] => (match unhex h with | some b => hexOrDash ((att2name (b.map (·.toNat))).map UInt8.ofNat) | none => "bad-op")
  | ["dumpdef", t, i] =>
    (match (tableByName t)[toNatD i]? with
     | some (n, d) => s!"{nameStr n} [{itemsStr d}]"
     | none => "none")
  | ["dumpcount", t] =>
    if t = "msgids" then toString Gen.ctx.msgids.length
    else if t = "cfgdb" then toString Gen.ctx.cfgdb.length
    else if t = "classes" then toString Gen.ctx.classes.length
    else toString (tableByName t).length
  | ["dumpmsgid", i] =>
    (match Gen.ctx.msgids[toNatD i]? with | some (b, n) => s!"{hexOf b} {nameStr n}" | none => "none")
  | ["dumpclass", i] =>
    (match Gen.ctx.classes[toNatD i]? with | some (b, n) => s!"{hexOf b} {nameStr n}" | none => "none")
  | ["dumpcfg", i] =>
    (match Gen.ctx.cfgdb[toNatD i]? with | some (n, k, t) => s!"{nameStr n} {k} {tyStr t}" | none => "none")
  | ["dumpvariants"] =>
    " ".intercalate (Gen.ctx.variants.map (fun (m, b, s) => s!"{m.toNat}:{hexOf b}:{reprStr s}"))
  | ["ping"] => "pong"
  | _ => "bad-op"

partial def loop (hin : IO.FS.Stream) (hout : IO.FS.Stream) : IO Unit := do
  let line ← hin.getLine
  if line.isEmpty then return ()
  let l := String.ofList (line.toList.reverse.dropWhile (fun c => c = '\n' || c = '\r')).reverse
  hout.putStrLn (handle l)
  hout.flush       -- one answer per line, visible at once: the harness times each operation
  loop hin hout

def main : IO Unit := do
  let hin ← IO.getStdin
  let hout ← IO.getStdout
  loop hin hout
  hout.flush
