#!/venv/bin/python
"""
Serialise the Python `ast` of selected control functions of the pyubx2 working tree (/repo/src) into
values of the PyLite syntax types (lean/Ubx/Model/PyLite.lean):  lean/Ubx/Generated/Code.lean.

This translator does no interpretation: one AST node becomes one constructor. Everything semantic
(what `+`, slicing, `in`, `try/except`, `for` … mean) is in the Lean interpreter, and the claim "this code
computes the same function as the hand-written model" is a theorem in lean/Ubx/Proofs/Code*.lean, checked
against the file generated from the source as it is *now*.

A node outside the fragment makes the whole function `untranslatable` (recorded in work/code_facts.json and
emitted as an empty function, so the equivalence theorem about it stops checking).
"""
import ast, json, os, sys

VERIF = os.path.dirname(os.path.dirname(os.path.abspath(__file__)))
REPO_SRC = os.environ.get("PYUBX2_SRC", "/repo/src")
OUT = os.path.join(VERIF, "lean", "Ubx", "Generated", "Code.lean")
FACTS = os.path.join(VERIF, "work", "code_facts.json")
BINDINGS = os.path.join(VERIF, "tools", "expected_bindings.json")

# module aliases whose attribute access is a plain global name (`ubt.U1` is `U1`, `ube.UBXTypeError` is `UBXTypeError`)
MODULE_ALIASES = {"ube", "ubt", "ubcdb", "nme", "rte", "uh"}

FUNCS = [
    ("ubxhelpers.py", "calc_checksum"), ("ubxhelpers.py", "isvalid_checksum"), ("ubxhelpers.py", "getinputmode"),
    ("ubxhelpers.py", "protocol"), ("ubxhelpers.py", "get_bits"),
    ("ubxvariants.py", "get_cfgtp5_dict"), ("ubxvariants.py", "get_mga_dict"), ("ubxvariants.py", "get_rxmpmreq_dict"),
    ("ubxvariants.py", "get_rxmpmp_dict"), ("ubxvariants.py", "get_rxmrlm_dict"), ("ubxvariants.py", "get_cfgnmea_dict"),
    ("ubxvariants.py", "get_aopstatus_dict"), ("ubxvariants.py", "get_relposned_dict"), ("ubxvariants.py", "get_timvcocal_dict"),
    ("ubxvariants.py", "get_cfgdat_dict"), ("ubxvariants.py", "get_secsig_dict"), ("ubxvariants.py", "get_alpsrv_dict"),
    ("ubxreader.py", "UBXReader.parse"), ("ubxreader.py", "UBXReader.read"), ("ubxreader.py", "UBXReader._parse_ubx"),
    ("ubxreader.py", "UBXReader._parse_nmea"), ("ubxreader.py", "UBXReader._parse_rtcm3"),
    ("ubxreader.py", "UBXReader._read_bytes"), ("ubxreader.py", "UBXReader._read_line"), ("ubxreader.py", "UBXReader._do_error"),
    ("ubxreader.py", "UBXReader.__next__"), ("ubxreader.py", "UBXReader.__init__"), ("ubxreader.py", "UBXReader.__iter__"),
    ("socket_wrapper.py", "SocketWrapper._recv"), ("socket_wrapper.py", "SocketWrapper.read"),
    ("socket_wrapper.py", "SocketWrapper.readline"), ("socket_wrapper.py", "SocketWrapper.__init__"),
    ("socket_wrapper.py", "SocketWrapper.buffer"), ("ubxreader.py", "UBXReader.datastream"),
    ("ubxmessage.py", "UBXMessage.config_set"), ("ubxmessage.py", "UBXMessage.config_del"),
    ("ubxmessage.py", "UBXMessage.config_poll"),
    ("ubxmessage.py", "UBXMessage._do_len_checksum"), ("ubxmessage.py", "UBXMessage.serialize"),
    ("ubxmessage.py", "UBXMessage.length"), ("ubxmessage.py", "UBXMessage.payload"),
    ("ubxmessage.py", "UBXMessage._set_attribute_bits"), ("ubxmessage.py", "UBXMessage._set_attribute_bitfield"),
    ("ubxmessage.py", "UBXMessage._set_attribute_cfgval"),
    ("ubxhelpers.py", "key_from_val"), ("ubxhelpers.py", "msgstr2bytes"), ("ubxhelpers.py", "msgclass2bytes"),
    ("ubxhelpers.py", "cfgname2key"), ("ubxhelpers.py", "bytes2val"), ("ubxhelpers.py", "val2bytes"), ("ubxhelpers.py", "cfgkey2name"),
    ("ubxmessage.py", "UBXMessage.msg_cls"), ("ubxmessage.py", "UBXMessage.msg_id"), ("ubxmessage.py", "UBXMessage.msgmode"),
    ("ubxmessage.py", "UBXMessage._calc_num_repeats"), ("ubxmessage.py", "UBXMessage._set_attribute"),
    ("ubxmessage.py", "UBXMessage._set_attribute_group"), ("ubxmessage.py", "UBXMessage._set_attribute_single"),
    ("ubxmessage.py", "UBXMessage._do_attributes"), ("ubxmessage.py", "UBXMessage._get_dict"),
    ("ubxmessage.py", "UBXMessage.identity"), ("ubxmessage.py", "UBXMessage.__init__"),
    ("ubxmessage.py", "UBXMessage.__setattr__"), ("ubxmessage.py", "UBXMessage.__delattr__"),
    ("ubxmessage.py", "UBXMessage.__repr__"), ("ubxmessage.py", "UBXMessage.__str__"),
]


class Untranslatable(Exception):
    pass


def enc(s: str) -> int:
    return int.from_bytes(s.encode("utf-8"), "big")


# functions whose f-strings are evaluated part by part (see `Tr.E`, JoinedStr)
EVAL_FSTRINGS = {"cfgkey2name", "UBXMessage.__repr__"}
# functions in which `a + b` / `x += b` with an operand that is *syntactically* text (a string literal, an f-string, a
# `str(…)` call, or such a concatenation itself) is handed to the host as `__concat__(a, b)`: the text built is not
# inspected, and what the other operand must be for `+` not to raise is the host's to say
TEXT_CONCAT = {"UBXMessage.__str__"}


class Tr:
    def __init__(self, params, kwparam=None, value_lists=()):
        self.locals = set(params)
        self.names = {}
        self.kwparam = kwparam
        self.fresh_lists = set()
        self.value_lists = set(value_lists)
        self.assumed_total = []
        self.eval_fstrings = False
        self.text_concat = False

    def nm(self, s):
        self.names[s] = enc(s)
        return hex(enc(s)) if s else "0"

    def bad(self, node, why=""):
        raise Untranslatable(f"{type(node).__name__} at line {getattr(node, 'lineno', '?')} {why}")

    # ---- expressions
    @staticmethod
    def idx_suffix(n):
        """`f"_{x:02d}"` → x, else None"""
        if (isinstance(n, ast.JoinedStr) and len(n.values) == 2 and isinstance(n.values[0], ast.Constant)
                and n.values[0].value == "_" and isinstance(n.values[1], ast.FormattedValue)
                and n.values[1].conversion == -1 and isinstance(n.values[1].format_spec, ast.JoinedStr)
                and len(n.values[1].format_spec.values) == 1
                and isinstance(n.values[1].format_spec.values[0], ast.Constant)
                and n.values[1].format_spec.values[0].value == "02d"):
            return n.values[1].value
        return None

    def dotted(self, node):
        """dotted global name of a callee / attribute chain rooted at a non-local name, else None"""
        parts = []
        n = node
        while isinstance(n, ast.Attribute):
            parts.append(n.attr)
            n = n.value
        if isinstance(n, ast.Name) and n.id not in self.locals and n.id != "self":
            parts.append(n.id)
            parts.reverse()
            if parts[0] in MODULE_ALIASES:
                parts = parts[1:]
            return ".".join(parts)
        return None

    def is_text(self, n):
        """syntactically a text: literal, f-string, `str(…)`, or a `+` with such an operand"""
        if isinstance(n, ast.Constant):
            return isinstance(n.value, str)
        if isinstance(n, ast.JoinedStr):
            return True
        if isinstance(n, ast.Call) and isinstance(n.func, ast.Name) and n.func.id == "str" and n.func.id not in self.locals:
            return True
        if isinstance(n, ast.BinOp) and isinstance(n.op, ast.Add):
            return self.is_text(n.left) or self.is_text(n.right)
        return False

    def lst(self, xs):
        return "[" + ", ".join(xs) + "]"

    def E(self, n):
        if isinstance(n, ast.Constant):
            v = n.value
            if v is None:
                return ".none"
            if v is True:
                return ".tt"
            if v is False:
                return ".ff"
            if isinstance(v, int):
                return f"(.int ({v}))"
            if isinstance(v, bytes):
                return "(.bytes [" + ", ".join(hex(b) for b in v) + "])"
            if isinstance(v, str):
                return f"(.str {self.nm(v)})"
            self.bad(n, "constant")
        if isinstance(n, ast.JoinedStr):
            x = self.idx_suffix(n)
            if x is not None:
                # the `_NN` suffix of a group member's name: kept, as a call the host interprets
                return f"(.call {self.nm('__sfx02d__')} [{self.E(x)}] [] [])"
            if self.eval_fstrings:
                # this function's f-strings carry behaviour (a lookup that can raise, a name that is looked up later): the
                # parts are evaluated in order and handed to the host, literal text as text, a format spec as one more text
                parts = []
                for v in n.values:
                    if isinstance(v, ast.Constant):
                        parts.append(f"(.str {self.nm(v.value)})")
                    else:
                        parts.append(self.E(v.value))
                        if v.format_spec is not None:
                            spec = "".join(x.value for x in v.format_spec.values if isinstance(x, ast.Constant))
                            parts.append(f"(.str {self.nm(spec)})")
                return f"(.call {self.nm('__fstr__')} {self.lst(parts)} [] [])"
            # any other f-string is an uninspected text; its sub-expressions are NOT evaluated — recorded, so that the
            # assumption "formatting these cannot raise or have an effect" can be read off code_facts.json
            for v in n.values:
                if isinstance(v, ast.FormattedValue):
                    self.assumed_total.append(ast.unparse(v.value))
            return ".ostr"
        if isinstance(n, ast.Name):
            # Python decides statically: a name the function assigns anywhere is local, every other name is module-level
            return f"(.var {self.nm(n.id)})" if n.id in self.locals else f"(.glob {self.nm(n.id)})"
        if isinstance(n, ast.Attribute):
            d = self.dotted(n)
            if d is not None:
                return f"(.glob {self.nm(d)})"
            return f"(.attr {self.E(n.value)} {self.nm(n.attr)})"
        if isinstance(n, ast.BinOp):
            ops = {ast.Add: "add", ast.Sub: "sub", ast.Mult: "mul", ast.FloorDiv: "floordiv", ast.Mod: "mod",
                   ast.BitAnd: "band", ast.BitOr: "bor", ast.BitXor: "bxor", ast.LShift: "shl", ast.RShift: "shr"}
            if type(n.op) not in ops:
                self.bad(n, "operator")
            if self.text_concat and isinstance(n.op, ast.Add) and (self.is_text(n.left) or self.is_text(n.right)):
                return f"(.call {self.nm('__concat__')} [{self.E(n.left)}, {self.E(n.right)}] [] [])"
            return f"(.bin .{ops[type(n.op)]} {self.E(n.left)} {self.E(n.right)})"
        if isinstance(n, ast.UnaryOp):
            if isinstance(n.op, ast.Invert):
                return f"(.inv {self.E(n.operand)})"
            if isinstance(n.op, ast.USub):
                return f"(.neg {self.E(n.operand)})"
            if isinstance(n.op, ast.Not):
                return f"(.not_ {self.E(n.operand)})"
            self.bad(n, "unary operator")
        if isinstance(n, ast.BoolOp):
            k = "and_" if isinstance(n.op, ast.And) else "or_"
            vals = [self.E(v) for v in n.values]
            out = vals[-1]
            for v in reversed(vals[:-1]):
                out = f"(.{k} {v} {out})"
            return out
        if isinstance(n, ast.Compare):
            ops = {ast.Eq: "eq", ast.NotEq: "ne", ast.Lt: "lt", ast.LtE: "le", ast.Gt: "gt", ast.GtE: "ge",
                   ast.In: "in_", ast.NotIn: "notIn", ast.Is: "is_", ast.IsNot: "isNot"}
            if any(type(o) not in ops for o in n.ops):
                self.bad(n, "comparison")
            if len(n.ops) == 1:
                c = n.comparators[0]
                if isinstance(n.ops[0], (ast.In, ast.NotIn)) and isinstance(c, ast.List):
                    # `x in [a, b]`: a list literal that is only searched — carried as a tuple
                    return f"(.cmp .{ops[type(n.ops[0])]} {self.E(n.left)} (.tuple {self.lst([self.E(e) for e in c.elts])}))"
                return f"(.cmp .{ops[type(n.ops[0])]} {self.E(n.left)} {self.E(c)})"
            if len(n.ops) == 2:
                return (f"(.cmp2 .{ops[type(n.ops[0])]} {self.E(n.left)} {self.E(n.comparators[0])} "
                        f".{ops[type(n.ops[1])]} {self.E(n.comparators[1])})")
            self.bad(n, "comparison chain")
        if isinstance(n, ast.Subscript) and isinstance(n.value, ast.List) and not isinstance(n.slice, ast.Slice):
            # `[a, b, c][i]`: a list literal that is only indexed — carried as a tuple
            return f"(.index (.tuple {self.lst([self.E(e) for e in n.value.elts])}) {self.E(n.slice)})"
        if isinstance(n, ast.Subscript):
            if isinstance(n.slice, ast.Slice):
                if n.slice.step is not None:
                    self.bad(n, "slice step")
                lo = self.E(n.slice.lower) if n.slice.lower is not None else ".none"
                hi = self.E(n.slice.upper) if n.slice.upper is not None else ".none"
                return f"(.slice {self.E(n.value)} {lo} {hi})"
            return f"(.index {self.E(n.value)} {self.E(n.slice)})"
        if isinstance(n, ast.Tuple):
            return f"(.tuple {self.lst([self.E(e) for e in n.elts])})"
        if isinstance(n, ast.Dict) and not n.keys:
            return f"(.call {self.nm('__emptydict__')} [] [] [])"      # `{}`: a host object
        if isinstance(n, ast.IfExp):
            return f"(.ife {self.E(n.test)} {self.E(n.body)} {self.E(n.orelse)})"
        if isinstance(n, ast.Call):
            star = [k for k in n.keywords if k.arg is None]
            if any(isinstance(a, ast.Starred) for a in n.args) or len(star) > 1 or (
                    star and not (isinstance(star[0].value, ast.Name) and star[0].value.id == self.kwparam)):
                self.bad(n, "star arguments")
            d = self.dotted(n.func)
            if d == "int" and len(n.args) == 1 and not n.keywords and isinstance(n.args[0], ast.BinOp) and isinstance(n.args[0].op, ast.Div):
                # `int(a / b)`: true division is float arithmetic — one call the host gives its meaning to
                return f"(.call {self.nm('__int_div__')} [{self.E(n.args[0].left)}, {self.E(n.args[0].right)}] [] [])"
            if (d == "round" and len(n.args) == 2 and not n.keywords and isinstance(n.args[0], ast.BinOp)
                    and isinstance(n.args[0].op, (ast.Mult, ast.Add))):
                # `round(a * b, n)` / `round(a + b, n)` on possibly-float operands: likewise
                f = "__round_mul__" if isinstance(n.args[0].op, ast.Mult) else "__round_add__"
                return f"(.call {self.nm(f)} [{self.E(n.args[0].left)}, {self.E(n.args[0].right)}, {self.E(n.args[1])}] [] [])"
            # `f(a, b, **kwargs)` with the enclosing function's own `**kwargs`: the dictionary object travels as one more
            # positional argument (the callee's `**kwargs` parameter is its last parameter in the translation)
            args = self.lst([self.E(a) for a in n.args] + ([f"(.var {self.nm(self.kwparam)})"] if star else []))
            kws = [k for k in n.keywords if k.arg is not None]
            kwn = self.lst([self.nm(k.arg) for k in kws])
            kwv = self.lst([self.E(k.value) for k in kws])
            d = self.dotted(n.func)
            if d == "isinstance" and len(n.args) == 2 and isinstance(n.args[1], ast.Name) and not n.keywords:
                # `isinstance(x, T)` with a built-in type name: the type is passed by name
                return f"(.call {self.nm('isinstance')} [{self.E(n.args[0])}, (.str {self.nm(n.args[1].id)})] [] [])"
            if d is not None:
                if d.endswith("Error") or d in ("StopIteration",):
                    # exception constructors: the message text is not part of any modelled behaviour (its sub-expressions
                    # are not evaluated either — recorded like those of other f-strings)
                    for a in list(n.args) + [k.value for k in n.keywords]:
                        for v in ast.walk(a):
                            if isinstance(v, ast.FormattedValue):
                                self.assumed_total.append(ast.unparse(v.value))
                            elif isinstance(v, ast.Call) and not isinstance(a, ast.JoinedStr):
                                self.assumed_total.append(ast.unparse(v))
                    return f"(.call {self.nm(d)} [] [] [])"
                return f"(.call {self.nm(d)} {args} {kwn} {kwv})"
            if isinstance(n.func, ast.Attribute):
                return f"(.mcall {self.E(n.func.value)} {self.nm(n.func.attr)} {args} {kwn} {kwv})"
            if isinstance(n.func, ast.Name) and n.func.id in self.locals and not kws:
                # calling a value held in a local variable (a function taken from a table): the host applies it
                return f"(.call {self.nm('__call__')} {self.lst([self.E(n.func)] + [self.E(a) for a in n.args] + ([f'(.var {self.nm(self.kwparam)})'] if star else []))} [] [])"
            self.bad(n, "callee")
        self.bad(n, "expression")

    # ---- statements
    def B(self, body):
        out = []
        for st in body:
            if isinstance(st, ast.Expr) and isinstance(st.value, ast.Constant) and isinstance(st.value.value, str):
                continue   # docstring
            out.append(self.S(st))
        return self.lst(out)

    def excnames(self, t):
        elts = t.elts if isinstance(t, ast.Tuple) else [t]
        out = []
        for e in elts:
            if isinstance(e, ast.Attribute):
                # `ube.UBXTypeError` → "UBXTypeError" (module alias dropped), `struct.error` → "struct.error"
                out.append(self.dotted(e) or e.attr)
            elif isinstance(e, ast.Name):
                out.append(e.id)
            else:
                self.bad(e, "exception class")
        return out

    def S(self, n):
        if isinstance(n, ast.Expr):
            c = n.value
            if (isinstance(c, ast.Call) and isinstance(c.func, ast.Attribute) and c.func.attr == "append"
                    and isinstance(c.func.value, ast.Name) and c.func.value.id in self.fresh_lists
                    and len(c.args) == 1 and not c.keywords):
                # `x.append(e)` on a list this function created itself (`x = []`) and has not handed out: `x = x + [e]`
                t = self.nm(c.func.value.id)
                return f"(.assign {t} (.bin .add (.var {t}) (.tuple [{self.E(c.args[0])}])))"
            if (isinstance(c, ast.Call) and isinstance(c.func, ast.Attribute) and isinstance(c.func.value, ast.Name)
                    and c.func.value.id in self.value_lists and not c.keywords):
                # a list parameter used linearly (see `linear_list_params`): in-place updates become rebindings
                t = self.nm(c.func.value.id)
                if c.func.attr == "append" and len(c.args) == 1:
                    return f"(.assign {t} (.bin .add (.var {t}) (.tuple [{self.E(c.args[0])}])))"
                if c.func.attr == "pop" and not c.args:
                    return f"(.assign {t} (.call {self.nm('__droplast__')} [(.var {t})] [] []))"
            return f"(.expr {self.E(n.value)})"
        if isinstance(n, ast.Assign):
            if len(n.targets) != 1:
                self.bad(n, "multiple targets")
            t = n.targets[0]
            if isinstance(t, ast.Name):
                if isinstance(n.value, ast.List) and not n.value.elts:
                    # `x = []`: a fresh list, carried as an (immutable) tuple; only `x.append(e)` is accepted on it
                    self.fresh_lists.add(t.id)
                    self.locals.add(t.id)
                    return f"(.assign {self.nm(t.id)} (.tuple []))"
                r = f"(.assign {self.nm(t.id)} {self.E(n.value)})"
                self.locals.add(t.id)
                return r
            if isinstance(t, ast.Tuple) and all(isinstance(e, ast.Name) for e in t.elts):
                r = f"(.assignT {self.lst([self.nm(e.id) for e in t.elts])} {self.E(n.value)})"
                for e in t.elts:
                    self.locals.add(e.id)
                return r
            if isinstance(t, ast.Tuple) and all(isinstance(e, ast.Attribute) for e in t.elts):
                # `(o.a, o.b) = e`: unpack into temporaries, then store (one block, run unconditionally)
                tmps = [f"__t{i}__" for i in range(len(t.elts))]
                for x in tmps:
                    self.locals.add(x)
                sets = [f"(.setAttr {self.E(e.value)} {self.nm(e.attr)} (.var {self.nm(x)}))" for e, x in zip(t.elts, tmps)]
                return f"(.if_ .tt {self.lst([f'(.assignT {self.lst([self.nm(x) for x in tmps])} {self.E(n.value)})'] + sets)} [])"
            if isinstance(t, ast.Attribute):
                return f"(.setAttr {self.E(t.value)} {self.nm(t.attr)} {self.E(n.value)})"
            if (isinstance(t, ast.Subscript) and isinstance(t.value, ast.Name) and t.value.id in self.value_lists
                    and isinstance(t.slice, ast.UnaryOp) and isinstance(t.slice.op, ast.USub)
                    and isinstance(t.slice.operand, ast.Constant) and t.slice.operand.value == 1):
                x = self.nm(t.value.id)     # `x[-1] = e`
                return f"(.assign {x} (.call {self.nm('__setlast__')} [(.var {x}), {self.E(n.value)}] [] []))"
            self.bad(n, "assignment target")
        if isinstance(n, ast.AugAssign):
            ops = {ast.Add: "add", ast.Sub: "sub", ast.Mult: "mul", ast.BitAnd: "band", ast.BitOr: "bor",
                   ast.RShift: "shr", ast.LShift: "shl"}
            if type(n.op) not in ops:
                self.bad(n, "augmented operator")
            if isinstance(n.target, ast.Name):
                x = self.idx_suffix(n.value)
                if x is not None and isinstance(n.op, ast.Add):
                    # `name += f"_{i:02d}"`: appending an index suffix to a name, as a call the host interprets
                    t = self.nm(n.target.id)
                    return f"(.assign {t} (.call {self.nm('__addsfx__')} [(.var {t}), {self.E(x)}] [] []))"
                if self.text_concat and isinstance(n.op, ast.Add) and self.is_text(n.value):
                    t = self.nm(n.target.id)
                    return f"(.assign {t} (.call {self.nm('__concat__')} [(.var {t}), {self.E(n.value)}] [] []))"
                return f"(.aug {self.nm(n.target.id)} .{ops[type(n.op)]} {self.E(n.value)})"
            if isinstance(n.target, ast.Attribute):
                obj = self.E(n.target.value)
                return (f"(.setAttr {obj} {self.nm(n.target.attr)} "
                        f"(.bin .{ops[type(n.op)]} (.attr {obj} {self.nm(n.target.attr)}) {self.E(n.value)}))")
            self.bad(n, "augmented target")
        if isinstance(n, ast.Return):
            return f"(.ret {self.E(n.value) if n.value is not None else '.none'})"
        if isinstance(n, ast.Raise):
            if n.exc is None:
                self.bad(n, "bare raise")
            return f"(.raise {self.E(n.exc)})"
        if isinstance(n, ast.If):
            return f"(.if_ {self.E(n.test)} {self.B(n.body)} {self.B(n.orelse)})"
        if isinstance(n, ast.For):
            if n.orelse:
                self.bad(n, "for shape")
            if isinstance(n.target, ast.Tuple) and all(isinstance(e, ast.Name) for e in n.target.elts):
                # `for a, b in it:` = `for <item> in it: (a, b) = <item>; …`
                for e in n.target.elts:
                    self.locals.add(e.id)
                tmp = "__item__"
                body = self.B(n.body)
                unpack = f"(.assignT {self.lst([self.nm(e.id) for e in n.target.elts])} (.var {self.nm(tmp)}))"
                assert body.startswith("[") and body.endswith("]")
                inner = body[1:-1].strip()
                return f"(.for_ {self.nm(tmp)} {self.E(n.iter)} [{unpack}{', ' + inner if inner else ''}])"
            if not isinstance(n.target, ast.Name):
                self.bad(n, "for shape")
            self.locals.add(n.target.id)
            return f"(.for_ {self.nm(n.target.id)} {self.E(n.iter)} {self.B(n.body)})"
        if isinstance(n, ast.While):
            if n.orelse:
                self.bad(n, "while-else")
            return f"(.while_ {self.E(n.test)} {self.B(n.body)})"
        if isinstance(n, ast.Try):
            if n.orelse or n.finalbody or not (1 <= len(n.handlers) <= 2):
                self.bad(n, "try shape")
            hs = []
            for h in n.handlers:
                if h.type is None:
                    self.bad(h, "bare except")
                if h.name:
                    self.locals.add(h.name)
                hs.append((self.lst([self.nm(x) for x in self.excnames(h.type)]), self.nm(h.name) if h.name else "0", self.B(h.body)))
            if len(hs) == 1:
                hs.append(("[]", "0", "[]"))
            return f"(.try_ {self.B(n.body)} {hs[0][0]} {hs[0][1]} {hs[0][2]} {hs[1][0]} {hs[1][1]} {hs[1][2]})"
        if isinstance(n, ast.Continue):
            return ".continue_"
        if isinstance(n, ast.Break):
            return ".break_"
        if isinstance(n, ast.Pass):
            return ".pass"
        self.bad(n, "statement")


def linear_list_params(tree, cls):
    """List parameters of the methods of class `cls` that are used *linearly*: a method that updates such a list in place
    returns it (second element of every returned tuple), and every caller that passes the list to such a method rebinds the
    same name to the returned list in the same statement — `(off, x) = self.m(…, x, …)` — while methods that do not return it
    never update it. Under that discipline no alias of the list is ever observed after an update, so `x.append(e)`,
    `x[-1] = e`, `x.pop()` can be translated as rebinding `x` to a new immutable sequence. Returns {method: {param}} for the
    updating methods; raises Untranslatable when the discipline is broken anywhere in the class."""
    c = next((n for n in tree.body if isinstance(n, ast.ClassDef) and n.name == cls), None)
    if c is None:
        return {}
    meths = {m.name: m for m in c.body if isinstance(m, ast.FunctionDef)}

    def mutates(m, x, aug=False):
        for n in ast.walk(m):
            if (isinstance(n, ast.Call) and isinstance(n.func, ast.Attribute) and isinstance(n.func.value, ast.Name)
                    and n.func.value.id == x and n.func.attr in ("append", "pop", "extend", "insert", "remove", "clear", "sort", "reverse")):
                return True
            if isinstance(n, (ast.Subscript,)) and isinstance(n.ctx, (ast.Store, ast.Del)) and isinstance(n.value, ast.Name) and n.value.id == x:
                return True
            if aug and isinstance(n, ast.AugAssign) and isinstance(n.target, ast.Name) and n.target.id == x:
                return True        # `x += [...]` extends a list in place (for an int it is a rebinding: only listy names)
        return False

    def returns_it(m, x):
        rets = [n for n in ast.walk(m) if isinstance(n, ast.Return)]
        return bool(rets) and all(isinstance(r.value, ast.Tuple) and len(r.value.elts) == 2 and isinstance(r.value.elts[1], ast.Name)
                                  and r.value.elts[1].id == x for r in rets)

    out = {}
    listy = {a.arg for m in meths.values() for a in m.args.args if mutates(m, a.arg)}
    for name, m in meths.items():
        for a in m.args.args:
            if mutates(m, a.arg, a.arg in listy):
                if not returns_it(m, a.arg):
                    raise Untranslatable(f"{cls}.{name}: list parameter {a.arg} updated in place but not returned")
                out.setdefault(name, set()).add(a.arg)
    if not out:
        return {}
    lists = set().union(*out.values())
    RET = {name for name, m in meths.items() for x in lists if any(a.arg == x for a in m.args.args) and returns_it(m, x)}
    for name, m in meths.items():
        parents = {}
        for n in ast.walk(m):
            for ch in ast.iter_child_nodes(n):
                parents[ch] = n
        for n in ast.walk(m):
            if not (isinstance(n, ast.Call) and isinstance(n.func, ast.Attribute) and isinstance(n.func.value, ast.Name) and n.func.value.id == "self"):
                continue
            passed = [a.id for a in n.args if isinstance(a, ast.Name) and a.id in lists]
            if not passed or n.func.attr not in meths:
                continue
            callee = n.func.attr
            for x in passed:
                if callee in RET:
                    par = parents.get(n)
                    ok = (isinstance(par, ast.Assign) and len(par.targets) == 1 and isinstance(par.targets[0], ast.Tuple)
                          and len(par.targets[0].elts) == 2 and isinstance(par.targets[0].elts[1], ast.Name) and par.targets[0].elts[1].id == x)
                    if not ok:
                        raise Untranslatable(f"{cls}.{name}: {x} passed to {callee} without rebinding it to the returned list")
                elif any(mutates(meths[callee], a.arg, True) for a in meths[callee].args.args if a.arg in lists):
                    raise Untranslatable(f"{cls}.{name}: {callee} updates {x} in place without returning it")
        # a second name for the list inside a method would be an alias
        for n in ast.walk(m):
            if isinstance(n, ast.Assign) and isinstance(n.value, ast.Name) and n.value.id in lists:
                raise Untranslatable(f"{cls}.{name}: alias of list {n.value.id}")
    return out


ALLOWED_DECORATORS = {"staticmethod", "property"}


def binds(stmt, name):
    """does this statement of a module / class body (re)bind `name`?"""
    if isinstance(stmt, (ast.FunctionDef, ast.AsyncFunctionDef, ast.ClassDef)):
        return stmt.name == name
    if isinstance(stmt, (ast.Import, ast.ImportFrom)):
        return any((a.asname or a.name.split(".")[0]) == name or a.name == "*" for a in stmt.names)
    return any(isinstance(x, ast.Name) and x.id == name and isinstance(x.ctx, (ast.Store, ast.Del)) for x in ast.walk(stmt))


def func_node(tree, qual):
    """the `def` a qualified name denotes. The name must be bound exactly once in its module / class body, by a `def`
    (a later `f = cache(f)`, a second `def f`, a star import after it would make the text translated here not the
    function that runs), and carry no decorator other than `staticmethod` / `property` (a decorator replaces the
    function by whatever it returns). Otherwise the function is reported as outside the fragment."""
    body, node = tree.body, None
    parts = qual.split(".")
    if len(parts) == 2:     # `Class.method = …` / `del Class.method` / `setattr(Class, "method", …)` anywhere in the module
        for x in ast.walk(tree):
            if (isinstance(x, ast.Attribute) and isinstance(x.ctx, (ast.Store, ast.Del)) and x.attr == parts[1]
                    and isinstance(x.value, ast.Name) and x.value.id == parts[0]):
                raise Untranslatable(f"{qual}: assigned from outside the class body (line {x.lineno})")
            if (isinstance(x, ast.Call) and isinstance(x.func, ast.Name) and x.func.id in ("setattr", "delattr") and len(x.args) >= 2
                    and isinstance(x.args[0], ast.Name) and x.args[0].id == parts[0]
                    and not (isinstance(x.args[1], ast.Constant) and x.args[1].value != parts[1])):
                raise Untranslatable(f"{qual}: {x.func.id}({parts[0]}, …) in the module (line {x.lineno})")
    for p in parts:
        cands = [n for n in body if binds(n, p)]
        if not cands:
            return None
        if len(cands) != 1 or not isinstance(cands[0], (ast.FunctionDef, ast.ClassDef)):
            raise Untranslatable(f"{qual}: `{p}` is bound {len(cands)} times in its scope (lines {[c.lineno for c in cands]})")
        node = cands[0]
        for d in node.decorator_list:
            if not (isinstance(d, ast.Name) and d.id in ALLOWED_DECORATORS and isinstance(node, ast.FunctionDef)):
                raise Untranslatable(f"{qual}: decorator `{ast.unparse(d)}` on `{p}` (line {node.lineno})")
        body = node.body
    return node


def lean_ident(qual):
    return "fn_" + qual.replace(".", "_")


def main():
    facts = {"untranslatable": {}, "functions": {}}
    out = ["import Ubx.Model.PyLite",
           "/-! GENERATED by tools/translate_code.py from the pyubx2 working tree — do not edit -/",
           "set_option maxRecDepth 100000",
           "namespace Ubx.Gen.Code", "open Ubx Ubx.Py"]
    trees = {}
    for fname, qual in FUNCS:
        path = os.path.join(REPO_SRC, "pyubx2", fname)
        if fname not in trees:
            trees[fname] = ast.parse(open(path, newline="").read().replace("\r\n", "\n"))
    # what the global names used by the translated functions are bound to in the live modules (the hosts answer
    # `calc_checksum(…)`, `UBXMessage(…)`, `ube.UBXParseError` … by the model's function / class *of that name*: that is
    # only right while the name still denotes the library's own object of that name)
    sys.path.insert(0, REPO_SRC)
    import importlib
    import builtins
    import inspect
    mods = {f: importlib.import_module("pyubx2." + f[:-3]) for f in trees}
    assert os.path.realpath(list(mods.values())[0].__file__).startswith(os.path.realpath(REPO_SRC))

    def describe(mod, name):
        if not hasattr(mod, name):
            return "builtin" if hasattr(builtins, name) else "unbound"
        o = getattr(mod, name)
        if inspect.ismodule(o):
            return "module " + o.__name__
        if inspect.isfunction(o) or inspect.isclass(o) or inspect.isbuiltin(o):
            return f"{getattr(o, '__module__', '?')}.{getattr(o, '__qualname__', '?')}"
        return "value"
    expected = {}
    if os.path.exists(BINDINGS):
        expected = json.load(open(BINDINGS))
    facts["bindings"] = {}
    for fname, qual in FUNCS:
        ident = lean_ident(qual)
        try:
            node = func_node(trees[fname], qual)
        except Untranslatable as e:
            facts["untranslatable"][qual] = str(e)
            out.append(f"/-- `{qual}`: outside the translatable fragment: {e} -/\ndef {ident} : Fn := {{ params := [], body := [] }}")
            continue
        if node is None:
            facts["untranslatable"][qual] = "function not found"
            out.append(f"/-- {qual}: NOT FOUND in the working tree -/\ndef {ident} : Fn := {{ params := [], body := [] }}")
            continue
        a = node.args
        params = [x.arg for x in a.posonlyargs + a.args]
        kwonly = [x.arg for x in a.kwonlyargs]
        allp = params + kwonly + ([a.kwarg.arg] if a.kwarg else [])
        if a.vararg:
            facts["untranslatable"][qual] = "*args"
        stored = {x.id for x in ast.walk(node) if isinstance(x, ast.Name) and isinstance(x.ctx, ast.Store)}
        stored |= {h.name for h in ast.walk(node) if isinstance(h, ast.ExceptHandler) and h.name}
        try:
            vl = set()
            if "." in qual:
                vl = linear_list_params(trees[fname], qual.split(".")[0]).get(qual.split(".")[1], set())
        except Untranslatable as e:
            facts["untranslatable"][qual] = str(e)
            out.append(f"/-- `{qual}`: outside the translatable fragment: {e} -/\ndef {ident} : Fn := {{ params := [], body := [] }}")
            continue
        tr = Tr(list(allp) + sorted(stored), a.kwarg.arg if a.kwarg else None, vl)
        tr.eval_fstrings = qual in EVAL_FSTRINGS
        tr.text_concat = qual in TEXT_CONCAT
        try:
            free = sorted({x.id for x in ast.walk(node) if isinstance(x, ast.Name) and isinstance(x.ctx, ast.Load)}
                          - set(allp) - stored - {"self"})
            for g in free:
                d = describe(mods[fname], g)
                facts["bindings"].setdefault(fname, {})[g] = d
                want = expected.get(fname, {}).get(g)
                if want is not None and want != d:
                    raise Untranslatable(f"{qual}: the name `{g}` is bound to {d}, not to {want}")
            body = tr.B(node.body)
            legend = ", ".join(f"{k}={hex(v)}" for k, v in sorted(tr.names.items()))
            out.append(f"/-- `{qual}` ({fname}:{node.lineno})\n    names: {legend} -/")
            out.append(f"def {ident} : Fn := {{\n  params := [{', '.join(tr.nm(p) for p in allp)}],\n  body := {body} }}")
            facts["functions"][qual] = dict(params=allp, names=sorted(tr.names))
            if tr.assumed_total:
                facts.setdefault("fstring_subexpressions_not_evaluated", {})[qual] = sorted(set(tr.assumed_total))
        except Untranslatable as e:
            facts["untranslatable"][qual] = str(e)
            out.append(f"/-- `{qual}`: outside the translatable fragment: {e} -/\ndef {ident} : Fn := {{ params := [], body := [] }}")
    # module-level constants referenced by the translated functions, from the live modules

    def gval(v):
        if v is None:
            return ".none"
        if isinstance(v, bool):
            return f"(.bool {'true' if v else 'false'})"
        if isinstance(v, int):
            return f"(.int ({v}))"
        if isinstance(v, bytes):
            return "(.bytes [" + ", ".join(hex(b) for b in v) + "])"
        if isinstance(v, str):
            return f"(.str {hex(enc(v)) if v else '0'})"
        if isinstance(v, (tuple, list)):
            xs = [gval(x) for x in v]
            if any(x is None for x in xs):
                return None
            return "(.tuple [" + ", ".join(xs) + "])"
        return None
    globs = {}
    for (fname, qual) in FUNCS:
        for name in facts["functions"].get(qual, {}).get("names", []):
            if "." in name or name in globs:
                continue
            mod = mods[fname]
            if hasattr(mod, name) and not callable(getattr(mod, name)):
                v = getattr(mod, name)
                if isinstance(v, (set, frozenset)):
                    v = sorted(v)
                if isinstance(v, list) and all(isinstance(x, bytes) for x in v):
                    v = sorted(v)
                g = gval(v)
                if g is not None:
                    globs[name] = g
    out.append("/-- module-level constants the translated functions refer to (values of the live module objects) -/")
    out.append("def globals : List (Name × G) := [\n  " + ",\n  ".join(f"({hex(enc(k))}, {v}) /- {k} -/" for k, v in sorted(globs.items())) + "]")
    facts["globals"] = sorted(globs)
    out.append("end Ubx.Gen.Code")
    text = "\n".join(out) + "\n"
    os.makedirs(os.path.dirname(OUT), exist_ok=True)
    os.makedirs(os.path.dirname(FACTS), exist_ok=True)
    old = open(OUT).read() if os.path.exists(OUT) else None
    if old != text:
        with open(OUT + ".tmp", "w") as f:
            f.write(text)
        os.replace(OUT + ".tmp", OUT)
    json.dump(facts, open(FACTS, "w"), indent=1, sort_keys=True)
    print(f"translate_code: {len(FUNCS)} functions, {len(text)} bytes, changed={old != text}, untranslatable={len(facts['untranslatable'])}")
    for k, v in facts["untranslatable"].items():
        print("  untranslatable:", k, "—", v)


if __name__ == "__main__":
    main()
