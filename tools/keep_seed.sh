#!/bin/bash
# usage: tools/keep_seed.sh <out dir> <seed id> <property> "<needs>" "<caught by>" <worktree to remove>
out="$1"; id="$2"; prop="$3"; needs="$4"; caught="$5"; wt="${6:-}"
mkdir -p /verif/seeded/$id
cp "$out/patch.diff" /verif/seeded/$id/patch.diff
[ -f "$out/demo.py" ] && cp "$out/demo.py" /verif/seeded/$id/demo.py
[ -f "$out/notes.txt" ] && cp "$out/notes.txt" /verif/seeded/$id/notes.txt
python3 - "$id" "$prop" "$needs" "$caught" <<'PY'
import json,sys
id,prop,needs,caught=sys.argv[1:5]
json.dump({"id":id,"breaks_property":prop,"needs_to_manifest":needs,
 "confirmed":"patch applies to /repo HEAD; demo.py PASS on clean tree, FAIL with the patch; stable test baseline unchanged (229 pass) with the patch (tools/try_seed.sh)",
 "ran":"tools/try_seed.sh <dir> <checks> (git -C /repo apply patch.diff; ./check <id> quick; git -C /repo checkout -- .)",
 "caught_by":caught}, open(f"/verif/seeded/{id}/meta.json","w"), indent=1)
PY
if [ -n "$wt" ]; then git -C /repo worktree remove --force "$wt"; rm -rf "$out"; fi
ls /verif/seeded/$id
