#!/bin/bash
# clean-tree runs of all quick checks under several seeds, in a private copy
V=${V2:-/tmp/v5}; SEEDS="${SEEDS:-1 2 3 4 5 6}"
rsync -a --delete --exclude replays --exclude evidence /verif/ "$V"/
mkdir -p "$V/replays" "$V/evidence"
# the copy is put back to the committed state of tracked files (half-made edits in /verif must not leak into a run)
git -C "$V" checkout -q -- . 2>/dev/null || true
cd "$V"
for seed in $SEEDS; do
  for c in C01 C02 C03 C04 C05 C06 C07 C08 C09 C10 C11 C12 C13 C14 C15 C16 C17 C18; do
    out=$(VERIF_SEED=$seed ./check $c quick 2>&1); rc=$?
    n=$(echo "$out" | grep -c '^VIOLATION')
    if [ $rc -ne 0 ] || [ $n -ne 0 ]; then echo "seed=$seed $c exit=$rc violations=$n :: $(echo "$out" | tail -1)"; echo "$out" | grep '^VIOLATION' | head -3; fi
  done
  echo "seed $seed done"
done
