#!/bin/bash
# run every check with several seeds on the clean tree; print anything that is not a clean pass
tier=${1:-quick}; shift
seeds=${@:-1 2 3}
cd /verif
for s in $seeds; do for p in C01 C02 C03 C04 C05 C06 C07 C08 C09 C10 C11 C12 C13 C14 C15 C16 C17 C18; do
  out=$(VERIF_SEED=$s ./check $p $tier 2>&1); rc=$?
  if [ $rc -ne 0 ]; then echo "seed=$s $p exit=$rc"; echo "$out" | grep -v KNOWN | tail -4; fi
done; done; echo "sweep done"
