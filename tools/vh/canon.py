"""Python side of the line protocol: execute an operation line against the real pyubx2 and
return the canonical answer string the Lean driver prints for the same line."""
import io, re, struct, sys
from datetime import datetime, timedelta

import pyubx2
from pyubx2 import UBXMessage, UBXReader
from pyubx2 import ubxhelpers as uh
from pyubx2 import exceptions as ube
from pyubx2.ubxtypes_core import UBX_MSGIDS
import pyubx2.ubxtypes_configdb as ubc

EXCNAME = {"error": "struct.error", "UnicodeDecodeError": "UnicodeError", "UnicodeEncodeError": "UnicodeError"}


def excname(e):
    n = type(e).__name__
    return EXCNAME.get(n, n)


def hx(b):
    return b.hex() if len(b) else "-"


def unhx(s):
    return b"" if s == "-" else bytes.fromhex(s)


def f64hex(x):
    if x != x:
        return "fnan"
    return "f" + struct.pack(">d", x).hex()


def valstr(v):
    if isinstance(v, bool):
        return "bT" if v else "bF"
    if isinstance(v, int):
        return f"i{v}"
    if isinstance(v, float):
        return f64hex(v)
    if isinstance(v, str):
        return "s" + hx(v.encode("utf-8", "surrogatepass"))
    if isinstance(v, (bytes, bytearray)):
        return "y" + hx(bytes(v))
    if isinstance(v, list):
        return "l" + ",".join(str(x) if isinstance(x, int) and not isinstance(x, bool) else
                              (str(int(x)) if isinstance(x, bool) else "?") for x in v)
    if v is None:
        return "n"
    return "o"


def parseval(s):
    k, r = s[0], s[1:]
    if k == "i":
        return int(r)
    if k == "b":
        return r == "T"
    if k == "f":
        return float("nan") if r == "nan" else struct.unpack(">d", bytes.fromhex(r))[0]
    if k == "s":
        return unhx(r).decode("utf-8", "surrogatepass")
    if k == "y":
        return unhx(r)
    if k == "l":
        return [] if r == "" else [(object() if t == "?" else int(t)) for t in r.split(",")]
    if k == "n":
        return None
    if k == "o":
        return {"other": 1}
    raise ValueError(s)


def kwname(tok):
    """name:1.2 -> name_01_02"""
    if ":" in tok:
        b, idx = tok.split(":", 1)
        return b + "".join(f"_{int(i):02d}" for i in idx.split(".") if i != "")
    return tok


def ident(m):
    i = m.identity
    return "NOMINAL" if i[-7:] == "NOMINAL" else i


def pub(m, name, conv):
    """a public property of the message, rendered; an exception raised by the getter becomes a token"""
    try:
        return conv(getattr(m, name))
    except Exception as e:  # noqa
        return "EXC:" + excname(e)


def msgdump(m):
    """what a user sees: the public properties (msg_cls, msg_id, msgmode, payload, length) and the public attributes;
    the checksum has no accessor of its own: it is read off the end of the public `serialize()`"""
    attrs = ",".join(f"{k}={valstr(v)}" for k, v in m.__dict__.items() if k[0] != "_")
    return (f"cls={pub(m, 'msg_cls', hx)} id={pub(m, 'msg_id', hx)} mode={pub(m, 'msgmode', str)} "
            f"payload={pub(m, 'payload', lambda p: 'None' if p is None else hx(p))} "
            f"len={pub(m, 'length', lambda n: hx(int(n).to_bytes(2, 'little')))} ck={pub(m, 'serialize', lambda f: hx(f()[-2:]))} ident={ident(m)} attrs=[{attrs}]")


def fulldump(m):
    try:
        str(m)
        st = "ok"
    except Exception as e:  # noqa
        st = excname(e)
    try:
        m2 = eval(repr(m), {"UBXMessage": UBXMessage})
        rp = "ok:" + m2.serialize().hex()
    except Exception as e:  # noqa
        rp = "err:" + excname(e)
    return f"ok {msgdump(m)} ser={m.serialize().hex()} str={st} repr={rp}"


def resdump(f):
    try:
        m = f()
    except Exception as e:  # noqa
        return f"err {excname(e)}"
    return fulldump(m)


_S_TOKEN = re.compile(r"=s([0-9a-f]+|-)(?=[,\]])")


def canon_model_line(line):
    """the model keeps CH strings as raw bytes; apply Python's codec (trusted, see DESIGN §3)"""
    if "=s" not in line:
        return line

    def rep(mo):
        raw = unhx(mo.group(1))
        return "=s" + hx(raw.decode("utf-8", "backslashreplace").encode("utf-8", "surrogatepass"))
    return _S_TOKEN.sub(rep, line)


def tystr(t):
    return t


def py_type(t):
    """protocol type token -> pyubx2 type string ('U1' style tokens are 'U001')"""
    return t


EPOCH0 = datetime(1980, 1, 6)


def cfgkey(tok):
    return int(tok[1:]) if tok.startswith("#") else tok


def outstr_item(proto, raw, parsed):
    if parsed is None:
        p = "None"
    elif proto == "ubx":
        p = "{" + msgdump(parsed) + "}"
    else:
        p = "P"
    return f"item:{proto}:{raw.hex()}:{p}"


def handle(line):
    t = line.split()
    op = t[0]
    if op.startswith("pyl-"):
        # the driver answers these by interpreting the working tree's code (PyLite); Python's own answer is that of
        # the plain operation
        return handle(line[4:])
    if op == "ping":
        return "pong"
    if op == "cksum":
        return uh.calc_checksum(unhx(t[1])).hex()
    if op == "isvalid":
        return "true" if uh.isvalid_checksum(unhx(t[1])) else "false"
    if op == "parse":
        return resdump(lambda: UBXReader.parse(unhx(t[4]), msgmode=int(t[1]), validate=int(t[2]), parsebitfield=t[3] == "1"))
    if op in ("str", "pyl-str"):
        # `str(m)` of the message the rest of the line denotes
        sub = t[1:]
        try:
            if sub[0] == "parse":
                m = UBXReader.parse(unhx(sub[4]), msgmode=int(sub[1]), validate=int(sub[2]), parsebitfield=sub[3] == "1")
            elif sub[0] == "construct":
                cls, mid, mode, bf, kind = unhx(sub[1]), unhx(sub[2]), int(sub[3]), sub[4] == "1", sub[5]
                if kind == "E":
                    m = UBXMessage(cls, mid, mode, parsebitfield=bf)
                elif kind == "P":
                    m = UBXMessage(cls, mid, mode, parsebitfield=bf, payload=unhx(sub[6]))
                else:
                    kw = {}
                    for tok in sub[6:]:
                        k, v = tok.split("=", 1)
                        kw[kwname(k)] = parseval(v)
                    m = UBXMessage(cls, mid, mode, parsebitfield=bf, **kw)
            else:
                return "bad-op"
        except Exception:  # noqa
            return "nomsg"
        try:
            str(m)
            return "str=ok"
        except Exception as e:  # noqa
            return "str=" + excname(e)
    if op == "construct":
        cls, mid, mode, bf, kind = unhx(t[1]), unhx(t[2]), int(t[3]), t[4] == "1", t[5]
        if kind == "E":
            return resdump(lambda: UBXMessage(cls, mid, mode, parsebitfield=bf))
        if kind == "P":
            return resdump(lambda: UBXMessage(cls, mid, mode, parsebitfield=bf, payload=unhx(t[6])))
        kw = {}
        for tok in t[6:]:
            k, v = tok.split("=", 1)
            kw[kwname(k)] = parseval(v)
        return resdump(lambda: UBXMessage(cls, mid, mode, parsebitfield=bf, **kw))
    if op == "addr":
        try:
            if t[1] == "str":
                a, b = uh.msgstr2bytes(t[2], t[3])
            else:
                a, b = uh.msgclass2bytes(int(t[2]), int(t[3]))
            return f"ok {hx(a)} {hx(b)}"
        except Exception as e:  # noqa
            return f"err {excname(e)}"
    if op in ("setattr", "delattr"):
        try:
            m = UBXReader.parse(unhx(t[4]), msgmode=int(t[1]), validate=int(t[2]), parsebitfield=t[3] == "1")
        except Exception as e:  # noqa
            return f"err {excname(e)}"
        before = m.serialize()
        res = []
        names = [k for k in m.__dict__] + ["newattr", "_payload", "_immutable", "payload", "identity"]
        e1n = e2n = None
        for n in names:
            try:
                setattr(m, n, 1)
                return "accepted"
            except Exception as e:  # noqa
                e1n = excname(e)
                if e1n != "UBXMessageError":
                    return f"refused {e1n}"
            try:
                delattr(m, n)
                return "accepted"
            except Exception as e:  # noqa
                e2n = excname(e)
                if e2n != "UBXMessageError":
                    return f"refused {e1n} {e2n}"
        return f"refused {e1n} {e2n} ser={m.serialize().hex()}" if m.serialize() == before else "changed"
    if op == "v2b":
        try:
            return "ok " + hx(uh.val2bytes(parseval(t[2]), t[1]))
        except Exception as e:  # noqa
            return f"err {excname(e)}"
    if op == "b2v":
        try:
            return "ok " + valstr(uh.bytes2val(unhx(t[2]), t[1]))
        except Exception as e:  # noqa
            return f"err {excname(e)}"
    if op == "nomval":
        try:
            return "ok " + valstr(uh.nomval(t[1]))
        except Exception as e:  # noqa
            return f"err {excname(e)}"
    if op == "attsiz":
        try:
            return f"ok {uh.attsiz(t[1])}"
        except Exception as e:  # noqa
            return f"err {excname(e)}"
    if op == "inputmode":
        return str(uh.getinputmode(unhx(t[1])))
    if op == "protocol":
        try:
            return f"ok {uh.protocol(unhx(t[1]))}"
        except Exception as e:  # noqa
            return f"err {excname(e)}"
    if op == "cfgkey":
        try:
            n, ty = uh.cfgkey2name(int(t[1]))
            return f"ok {n} {tyshort(ty)}"
        except Exception as e:  # noqa
            return f"err {excname(e)}"
    if op == "cfgname":
        try:
            k, ty = uh.cfgname2key(t[1])
            return f"ok {k} {tyshort(ty)}"
        except Exception as e:  # noqa
            return f"err {excname(e)}"
    if op == "cfgset":
        data = []
        for tok in t[3:]:
            k, v = tok.split("=", 1)
            data.append((cfgkey(k), parseval(v)))
        return resdump(lambda: UBXMessage.config_set(int(t[1]), int(t[2]), data))
    if op == "cfgdel":
        return resdump(lambda: UBXMessage.config_del(int(t[1]), int(t[2]), [cfgkey(k) for k in t[3:]]))
    if op == "cfgpoll":
        return resdump(lambda: UBXMessage.config_poll(int(t[1]), int(t[2]), [cfgkey(k) for k in t[3:]]))
    if op == "getbits":
        if int(t[2]) == 0:
            return "diverges" if unhx(t[1]) else "err ValueError"
        try:
            return f"ok {uh.get_bits(unhx(t[1]), int(t[2]))}"
        except Exception as e:  # noqa
            return f"err {excname(e)}"
    if op == "att2idx":
        r = uh.att2idx(unhx(t[1]).decode("ascii"))
        return "(" + ",".join(str(x) for x in r) + ")" if isinstance(r, tuple) else str(r)
    if op == "att2name":
        return hx(uh.att2name(unhx(t[1]).decode("ascii")).encode("ascii"))
    if op == "itow2utc":
        try:
            tm = uh.itow2utc(int(t[1]))
            return f"ok {((tm.hour * 60 + tm.minute) * 60 + tm.second) * 1000000 + tm.microsecond}"
        except Exception as e:  # noqa
            return f"err {excname(e)}"
    if op == "utc2itow":
        try:
            w, i = uh.utc2itow(EPOCH0 + timedelta(microseconds=int(t[1])))
            return f"ok {w} {i}"
        except Exception as e:  # noqa
            return f"err {excname(e)}"
    if op == "val2sphp":
        try:
            a = struct.unpack(">d", int(t[1]).to_bytes(8, "big"))[0]
            b = struct.unpack(">d", int(t[2]).to_bytes(8, "big"))[0]
            s, h = uh.val2sphp(a, b)
            return f"ok {s} {h}"
        except Exception as e:  # noqa
            return f"err {excname(e)}"
    if op == "f64":
        return f64op(t[1:])
    if op == "scaleup":
        try:
            sc = parseval(t[2])
            v = uh.bytes2val(unhx(t[3]), t[1])
            return "ok " + valstr(round(v * sc, 12))
        except Exception as e:  # noqa
            return f"err {excname(e)}"
    if op == "scaledown":
        try:
            return f"ok {int(parseval(t[2]) / parseval(t[1]))}"
        except Exception as e:  # noqa
            return f"err {excname(e)}"
    raise ValueError("unknown op " + op)


def tyshort(ty):
    """'U004' -> 'U4' as the driver prints types"""
    if ty == "CH":
        return "CH"
    try:
        return f"{ty[0]}{int(ty[1:4])}"
    except ValueError:
        return f"{ty[0]}?"


def _f(n):
    return struct.unpack(">d", int(n).to_bytes(8, "big"))[0]


def _h(x):
    return struct.pack(">d", x).hex()


def f64op(t):
    op = t[0]
    try:
        if op == "mul":
            return _h(_f(t[1]) * _f(t[2]))
        if op == "div":
            return _h(_f(t[1]) / _f(t[2]))
        if op == "add":
            return _h(_f(t[1]) + _f(t[2]))
        if op == "round12":
            return _h(round(_f(t[1]), 12))
        if op == "ofint":
            return _h(float(int(t[1])))
        if op == "trunc":
            return str(int(_f(t[1])))
        if op == "tof32":
            return str(int.from_bytes(struct.pack(">f", _f(t[1])), "big"))
        if op == "off32":
            return _h(struct.unpack(">f", int(t[1]).to_bytes(4, "big"))[0])
    except ZeroDivisionError:
        return "zerodiv"
    except OverflowError:
        return "OverflowError" if op == "trunc" else "overflow"
    except ValueError:
        return "ValueError"
    raise ValueError(op)


# ---------------------------------------------------------------- stream reader ops
import socket as _socket
from pynmeagps import NMEAReader
from pyrtcm import RTCMReader

NCODES = ["NMEAMessageError", "NMEATypeError", "NMEAParseError", "NMEAStreamError"]
RCODES = ["RTCMMessageError", "RTCMParseError", "RTCMStreamError", "RTCMTypeError"]
FOREIGN = []          # exception type names seen escaping a foreign parser, index = crash code
READ_CATCH = None     # names in read()'s catch list (facts.json), set by the runner


def foreign_code(name):
    if name not in FOREIGN:
        FOREIGN.append(name)
    return FOREIGN.index(name)


class NonTermination(BaseException):
    """the code under test keeps asking a finished source for more: it would never return.
    A BaseException, so that no `except Exception` / `except OSError` in the library can swallow it."""


class FakeSock(_socket.socket):
    """a socket whose recv() delivers a prescribed chunk schedule, then closes or times out"""

    def __init__(self, chunks, end="close"):
        super().__init__(_socket.AF_INET, _socket.SOCK_STREAM)
        self._chunks = list(chunks)
        self._end = end
        self.recv_sizes = []
        self._after_end = 0

    def recv(self, n, *a):
        if len(self.recv_sizes) < 100000:
            self.recv_sizes.append(n)
        if not self._chunks:
            self._after_end += 1
            if self._after_end > 2000:
                raise NonTermination("recv() called 2000 times after the connection ended")
        if self._chunks:
            c = self._chunks[0]
            if len(c) <= n:
                self._chunks.pop(0)
                return c
            self._chunks[0] = c[n:]
            return c[:n]
        if self._end == "close":
            return b""
        raise TimeoutError("timed out")


class GuardSock(_socket.socket):
    """a real socket that notices a caller spinning on a closed connection"""

    def __init__(self, sock):
        super().__init__(sock.family, sock.type, sock.proto, fileno=sock.detach())
        self._empties = 0

    def recv(self, n, *a):
        d = super().recv(n, *a)
        if d == b"":
            self._empties += 1
            if self._empties > 2000:
                raise NonTermination("recv() called 2000 times after the peer closed the connection")
        return d


def verdict_for(proto, raw, mode, val):
    """ask the real foreign parser; returns 'ok' | 'rN' | 'cN'"""
    try:
        if proto == "nmea":
            r = NMEAReader.parse(raw, validate=val, msgmode=mode)
        else:
            r = RTCMReader.parse(raw, validate=val, labelmsm=1)
        return "ok" if r is not None else "n"
    except Exception as e:  # noqa
        n = type(e).__name__
        codes = NCODES if proto == "nmea" else RCODES
        if n in codes and (READ_CATCH is None or n in READ_CATCH):
            return f"r{codes.index(n)}"
        return f"c{foreign_code(n)}"


def errname(e):
    return excname(e)


def reader_run(stream_obj, q, filt, parsing, mode, val, bf, bufsize=4096):
    calls = []
    items = []
    raised = "none"
    crashed = "none"
    try:
        rdr = UBXReader(stream_obj, msgmode=mode, validate=val, protfilter=filt, quitonerror=q,
                        parsebitfield=bf, parsing=parsing, bufsize=bufsize,
                        errorhandler=lambda e: calls.append(errname(e)))
        for raw, parsed in rdr:
            # labelled by the lead byte the reader dispatched on (independent of the `protocol()` helper,
            # which C11/C18 compare with this label)
            proto = {0xb5: "ubx", 0x24: "nmea", 0xd3: "rtcm"}.get(raw[0] if raw else -1, "?")
            if parsed is None:
                p = "None"
            elif proto == "ubx":
                p = "{" + msgdump(parsed) + "}"
            else:
                p = "P"
            items.append(f"{proto}:{raw.hex()}:{p}")
    except NonTermination:
        crashed = "NonTermination"
    except Exception as e:  # noqa
        n = errname(e)
        known = ["UBXMessageError", "UBXTypeError", "UBXParseError", "UBXStreamError"] + NCODES + RCODES
        if q == 2 and n in known and (READ_CATCH is None or n in READ_CATCH):
            raised = n
        else:
            crashed = n
    return f"items=[{' '.join(items)}] calls=[{','.join(calls)}] raised={raised} crashed={crashed}"


_CODE_TOKEN = re.compile(r"\b([NR])(\d+)\b")
_CRASH_TOKEN = re.compile(r"crashed=(ubx|nmea|rtcm):(\d+)")

EXC_BY_CODE = ["UBXParseError", "UBXMessageError", "UBXTypeError", "UBXStreamError", "IndexError", "TypeError",
               "ValueError", "OverflowError", "AttributeError", "struct.error", "KeyError", "ZeroDivisionError",
               "UnboundLocalError", "UnicodeError", "MemoryError"]


def canon_readp_model(line):
    """map the model's numeric NMEA/RTCM verdict codes back to exception type names"""
    if not line.startswith("items=["):
        return line
    head, tail = line.split("] calls=[", 1)

    def rep(mo):
        t = NCODES if mo.group(1) == "N" else RCODES
        i = int(mo.group(2))
        return t[i] if i < len(t) else mo.group(0)

    def crep(mo):
        c = int(mo.group(2))
        if mo.group(1) == "ubx":
            return "crashed=" + (EXC_BY_CODE[c] if c < len(EXC_BY_CODE) else str(c))
        return "crashed=" + (FOREIGN[c] if c < len(FOREIGN) else f"?{c}")
    tail = _CODE_TOKEN.sub(rep, tail)
    tail = _CRASH_TOKEN.sub(crep, tail)
    return head + "] calls=[" + tail


def handle_readp(t):
    """readp <src> <q> <filter> <parsing> <mode> <val> <bf> <hex> [verdicts…]"""
    src, q, filt, parsing, mode, val, bf = t[1], int(t[2]), int(t[3]), t[4] == "1", int(t[5]), int(t[6]), t[7] == "1"
    data = unhx(t[8])
    if src == "file":
        return reader_run(io.BytesIO(data), q, filt, parsing, mode, val, bf)
    spec = src[5:]
    end = "close"
    if spec.endswith("!"):           # '!' marks a timeout end (python side only; same model)
        end = "timeout"
        spec = spec[:-1]
    lens = [int(x) for x in spec.split(",") if x]
    chunks = []
    rest = data
    for n in lens:
        if not rest:
            break
        chunks.append(rest[:n])
        rest = rest[n:]
    if rest:
        chunks.append(rest)
    bufsize = max([len(c) for c in chunks] + [1])
    sock = FakeSock(chunks, end)
    try:
        return reader_run(sock, q, filt, parsing, mode, val, bf, bufsize=bufsize)
    finally:
        sock.close()


def handle_sockread(t):
    """sockread <lens> <ops> <hex>"""
    from pyubx2.socket_wrapper import SocketWrapper
    data = unhx(t[3])
    lens = [int(x) for x in t[1].split(",") if x]
    chunks, rest = [], data
    for n in lens:
        if not rest:
            break
        chunks.append(rest[:n]); rest = rest[n:]
    if rest:
        chunks.append(rest)
    sock = FakeSock(chunks, "close")
    try:
        w = SocketWrapper(sock, bufsize=max([len(c) for c in chunks] + [1]))
        out = []
        dead = False
        for o in [x for x in t[2].split(",") if x]:
            if dead:
                out.append("dead"); continue
            if o == "L":
                d = w.readline()
                if len(d) == 0:
                    out.append("eof"); dead = True
                elif d[-1:] != b"\n":
                    out.append("short"); dead = True
                else:
                    out.append("ok:" + hx(d))
            else:
                n = int(o)
                d = w.read(n)
                if len(d) == 0 and n > 0:
                    out.append("eof"); dead = True
                elif 0 < len(d) < n:
                    out.append("short"); dead = True
                else:
                    out.append("ok:" + hx(d))
        return " ".join(out)
    except NonTermination:
        return " ".join(out + ["never-returns"])
    finally:
        sock.close()


_handle_core = handle


def handle(line):  # noqa: F811
    t = line.split()
    if t[0] == "readp":
        return handle_readp(t)
    if t[0] == "sockread":
        return handle_sockread(t)
    return _handle_core(line)
