"""Correspondence: run operation lines on the real pyubx2 and on the Lean model, diff answers."""
import contextlib, io, os, sys, time
from . import canon
from .driver import run_model


def run_python(lines):
    out = []
    for ln in lines:
        try:
            out.append(canon.handle(ln))
        except Exception as e:  # harness-level failure: make it visible as a difference
            out.append(f"harness-error {type(e).__name__}: {e}")
    return out


MAX_ATTRS = 2500   # the model's attribute environment is a plain list (quadratic): very large
                   # messages are checked on the implementation only (counted in `skipped_large`)
skipped_large = 0


def compare(lines):
    """returns (n_compared, diffs, python_answers) with diffs = list of (line, python_answer, model_answer)"""
    global skipped_large
    py = run_python(lines)
    keep = [i for i, a in enumerate(py) if a.count("=") <= MAX_ATTRS]
    skipped_large += len(lines) - len(keep)
    mo = [canon.canon_readp_model(canon.canon_model_line(x)) for x in run_model([lines[i] for i in keep])]
    diffs = [(lines[i], py[i], b) for i, b in zip(keep, mo) if py[i] != b and b != "model-timeout"]
    return len(keep), diffs, py
