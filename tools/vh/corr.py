"""Correspondence: run operation lines on the real pyubx2 and on the Lean model, diff answers."""
import contextlib, io, os, sys, time
from . import canon
from .driver import run_model


def run_python(lines):
    out = []
    for ln in lines:
        try:
            out.append(canon.handle(ln))
        except Exception as e:  # harness-level failure: make it visible as a difference
            out.append(f"harness-error {type(e).__name__}: {e}")
    return out


def compare(lines):
    """returns (n, diffs) with diffs = list of (line, python_answer, model_answer)"""
    py = run_python(lines)
    mo = [canon.canon_model_line(x) for x in run_model(lines)]
    diffs = [(l, a, b) for l, a, b in zip(lines, py, mo) if a != b]
    return len(lines), diffs, py
