"""Run the compiled Lean model driver over a batch of operation lines."""
import os, subprocess, tempfile

VERIF = os.path.dirname(os.path.dirname(os.path.dirname(os.path.abspath(__file__))))
DRIVER = os.path.join(VERIF, "lean", ".lake", "build", "bin", "driver")


def run_model(lines, timeout=1800):
    """lines: list[str] -> list[str] (one answer per line)"""
    if not lines:
        return []
    data = ("\n".join(lines) + "\n").encode()
    p = subprocess.run([DRIVER], input=data, stdout=subprocess.PIPE, stderr=subprocess.PIPE, timeout=timeout)
    if p.returncode != 0:
        raise RuntimeError(f"driver exited {p.returncode}: {p.stderr.decode()[-500:]}")
    out = p.stdout.decode().split("\n")
    if out and out[-1] == "":
        out.pop()
    if len(out) != len(lines):
        raise RuntimeError(f"driver returned {len(out)} answers for {len(lines)} operations")
    return out
