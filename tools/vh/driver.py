"""Run the compiled Lean model driver over a batch of operation lines."""
import os, selectors, subprocess, threading, time

VERIF = os.path.dirname(os.path.dirname(os.path.dirname(os.path.abspath(__file__))))
DRIVER = os.path.join(VERIF, "lean", ".lake", "build", "bin", "driver")

# The model is executable but not fast on pathological inputs (its attribute environment is a plain list: a frame that
# declares 65 535 group members takes minutes). An operation the model does not answer within PER_LINE seconds is
# answered "model-timeout": the correspondence skips it (counted as `model_timeouts`), the implementation-side
# oracles still see it. After MAX_SLOW such operations in one batch the rest of the batch is skipped the same way.
PER_LINE = float(os.environ.get("VERIF_MODEL_PER_LINE", "30"))
MAX_SLOW = 8
TIMEOUT_ANSWER = "model-timeout"
model_timeouts = 0


def _run_once(lines, per_line):
    """returns (answers so far, finished?)"""
    data = ("\n".join(lines) + "\n").encode()
    p = subprocess.Popen([DRIVER], stdin=subprocess.PIPE, stdout=subprocess.PIPE, stderr=subprocess.PIPE)

    def feed():
        try:
            p.stdin.write(data)
            p.stdin.close()
        except (BrokenPipeError, OSError):
            pass
    th = threading.Thread(target=feed, daemon=True)
    th.start()
    sel = selectors.DefaultSelector()
    sel.register(p.stdout, selectors.EVENT_READ)
    buf = bytearray()
    nl = 0
    last = time.time()
    finished = False
    fd = p.stdout.fileno()
    while True:
        ev = sel.select(timeout=1.0)
        if ev:
            chunk = os.read(fd, 1 << 20)
            if not chunk:
                finished = True
                break
            buf += chunk
            k = chunk.count(b"\n")
            if k:
                nl += k
                last = time.time()
        elif time.time() - last > per_line:
            break
    sel.close()
    if not finished:
        p.kill()
    p.wait()
    err = p.stderr.read()
    p.stdout.close(); p.stderr.close()
    th.join(timeout=5)
    out = bytes(buf).decode().split("\n")
    out = out[:nl]                         # complete lines only
    if finished and p.returncode != 0:
        raise RuntimeError(f"driver exited {p.returncode}: {err.decode()[-500:]}")
    return out, finished


def run_model(lines, timeout=None):
    """lines: list[str] -> list[str] (one answer per line)"""
    global model_timeouts
    if not lines:
        return []
    answers = []
    rest = list(lines)
    slow = 0
    while rest:
        if slow >= MAX_SLOW:
            answers += [TIMEOUT_ANSWER] * len(rest)
            model_timeouts += len(rest)
            break
        out, finished = _run_once(rest, PER_LINE)
        answers += out
        if finished:
            rest = rest[len(out):]
            if rest:
                raise RuntimeError(f"driver returned {len(answers)} answers for {len(lines)} operations")
            break
        # the operation after the last answered one is the slow one
        answers.append(TIMEOUT_ANSWER)
        model_timeouts += 1
        slow += 1
        rest = rest[len(out) + 1:]
    if len(answers) != len(lines):
        raise RuntimeError(f"driver returned {len(answers)} answers for {len(lines)} operations")
    return answers
