"""Per-property checks: correspondence operations + direct oracles on the real code."""
import collections, hashlib, io, itertools, json, os, random, struct, sys, tempfile, threading, time

from . import canon, corr, defs, gen
from .driver import run_model

import pyubx2
import pyubx2.ubxvariants
from pyubx2 import UBXMessage, UBXReader, GET, SET, POLL
from pyubx2 import ubxhelpers as uh
from pyubx2.ubxtypes_core import UBX_MSGIDS, UBX_CLASSES
import pyubx2.ubxtypes_configdb as ubc
from pyubx2.exceptions import UBXMessageError, UBXParseError, UBXStreamError, UBXTypeError

UBXERR = (UBXMessageError, UBXParseError, UBXStreamError, UBXTypeError)
UBXERRNAMES = {"UBXMessageError", "UBXParseError", "UBXStreamError", "UBXTypeError"}


class Ctx:
    def __init__(self, pid, tier, seed, facts, build):
        self.pid, self.tier, self.seed, self.facts, self.build = pid, tier, seed, facts, build
        self.rng = random.Random(f"{pid}-{seed}")
        canon.READ_CATCH = set(facts.get("readCatch", [])) or None
        self.cat = defs.catalogue()
        self.reach = [e for e in self.cat if e["reachable"]]

    def n(self, quick, thorough):
        return thorough if self.tier == "thorough" else quick


class Result:
    def __init__(self):
        self.findings = []
        self.diffs = []
        self.coverage = dict(evaluations=0, distinct_nontrivial=0, rule="", samples=[])
        self.assumptions = []
        self._distinct = set()
        self.hist = collections.Counter()

    def finding(self, key, what, inp=None):
        self.findings.append(dict(key=key, what=what, input=inp))

    def count(self, n=1):
        self.coverage["evaluations"] += n

    def distinct(self, token):
        self._distinct.add(token)

    def finish(self, rule, samples):
        self.coverage["distinct_nontrivial"] = len(self._distinct)
        self.coverage["rule"] = rule
        self.coverage["samples"] = samples[:6]
        self.coverage["histogram"] = dict(self.hist.most_common(40))
        return self


def do_corr(res, lines):
    """run correspondence on `lines`; record diffs; return python answers"""
    n, diffs, py = corr.compare(lines)
    res.count(n)
    res.coverage["traces_validated_against_impl"] = res.coverage.get("traces_validated_against_impl", 0) + n
    for l, a, b in diffs:
        res.diffs.append(dict(op=l, py=a, model=b))
    return py


def attrs_of(ans):
    """attrs=[…] part of a dump answer"""
    i = ans.index("attrs=[") + 7
    j = ans.index("] ser=") if "] ser=" in ans else ans.index("]", i)
    return ans[i:j]


def field(ans, name):
    i = ans.index(" " + name + "=") + len(name) + 2
    j = ans.find(" ", i)
    return ans[i:j if j >= 0 else None]


# ----------------------------------------------------------------------------- frame generation

def gen_frames(ctx, per_def, maxrep=3):
    """[(ent, layout, frame bytes)] with payloads laid out exactly per definition"""
    out = []
    for ent in ctx.reach:
        for _ in range(per_def):
            lay = gen.layout(ctx.rng, ent, maxrep=maxrep)
            if lay is None:
                continue
            out.append((ent, lay, gen.frame(ent["cls"], ent["id"], lay.payload)))
    return out


def odd_lengths(rng, payload):
    """payloads shorter / longer than the definition"""
    outs = [b"", payload[:1], payload[:-1], payload + b"\x00", payload + bytes(rng.getrandbits(8) for _ in range(3))]
    if len(payload) > 2:
        outs.append(payload[:rng.randrange(1, len(payload))])
    return outs


def undocumented_ids(rng, k):
    known = set(x[:2] for x in UBX_MSGIDS)
    out = []
    while len(out) < k:
        c = bytes([rng.getrandbits(8)])
        i = bytes([rng.getrandbits(8)])
        if c + i not in known:
            out.append((c, i))
    # undocumented id in a documented class, too
    for c in (b"\x01", b"\x06", b"\x13", b"\x0a"):
        for i in range(256):
            if c + bytes([i]) not in known:
                out.append((c, bytes([i])))
                break
    return out


# ----------------------------------------------------------------------------- C01

def check_C01(ctx):
    res = Result()
    rng = ctx.rng
    lines, meta = [], []
    for ent, lay, fr in gen_frames(ctx, ctx.n(2, 12)):
        variants = [lay.payload] + (odd_lengths(rng, lay.payload) if rng.random() < ctx.n(0.5, 1.0) else [])
        for p in variants:
            f = gen.frame(ent["cls"], ent["id"], p)
            for mode in ({ent["mode"], rng.choice([0, 1, 2, 3])}):
                bf = rng.choice([0, 1])
                lines.append(f"parse {mode} 1 {bf} {f.hex()}")
                meta.append((ent["name"], f))
                res.hist[f"mode{mode}"] += 1
    for c, i in undocumented_ids(rng, ctx.n(40, 400)):
        p = bytes(rng.getrandbits(8) for _ in range(rng.choice([0, 1, 7, 40])))
        f = gen.frame(c, i, p)
        for mode in (0, 1, 2, 3):
            lines.append(f"parse {mode} 1 {rng.choice([0, 1])} {f.hex()}")
            meta.append(("undoc", f))
    for n in ([65535, 40000] if ctx.tier == "thorough" else [65535]):
        f = gen.frame(b"\x0a\x04"[:1], b"\x04", bytes(n))
        lines.append(f"parse 0 1 1 {f.hex()}")
        meta.append(("long", f))
    py = do_corr(res, lines)
    samples = []
    for (name, f), a, l in zip(meta, py, lines):
        if not a.startswith("ok "):
            res.hist["rejected:" + a[4:]] += 1
            continue
        res.distinct((name, len(f)))
        res.hist["accepted"] += 1
        ln = int.from_bytes(f[4:6], "little")
        pay = f[6:6 + ln]
        exp_payload = "None" if ln == 0 else pay.hex()
        ok = (field(a, "ser") == f.hex() and field(a, "cls") == f[2:3].hex() and field(a, "id") == f[3:4].hex()
              and field(a, "len") == f[4:6].hex() and field(a, "payload") == exp_payload
              and field(a, "repr") == "ok:" + f.hex())
        if not ok:
            res.finding(f"def={name};len={ln}", "parse→serialize / fields / eval(repr) do not reproduce the frame", dict(op=l, answer=a[:400]))
        if len(samples) < 4:
            samples.append(l[:120])
    res.assumptions = ["payload None is the library's representation of an empty payload"]
    return res.finish("one case per (definition, frame length) accepted by parse; all defs × exact/short/long payloads × modes, undocumented ids, 65535-byte payload", samples)


# ----------------------------------------------------------------------------- C02

def check_C02(ctx):
    res = Result()
    lines, meta = [], []
    for ent, lay, fr in gen_frames(ctx, ctx.n(4, 40), maxrep=ctx.rng.choice([3, 5])):
        for bf in (1, 0):
            lines.append(f"parse {ent['mode']} 1 {bf} {fr.hex()}")
            meta.append((ent, lay, bf))
    # a large repeat count for every variable / counted group (every count a size field can express, sampled high)
    for ent in ctx.reach:
        if any(isinstance(v, tuple) and v[0] not in gen.BITTYPES for v in ent["defn"].values()):
            lay = gen.layout(ctx.rng, ent, maxrep=ctx.n(40, 255))
            if lay is not None and len(lay.payload) < 60000:
                fr = gen.frame(ent["cls"], ent["id"], lay.payload)
                for bf in (1, 0):
                    lines.append(f"parse {ent['mode']} 1 {bf} {fr.hex()}")
                    meta.append((ent, lay, bf))
    py = do_corr(res, lines)
    samples = []
    errs = collections.defaultdict(lambda: collections.defaultdict(list))   # def -> bf -> [ok?]
    for (ent, lay, bf), a, l in zip(meta, py, lines):
        nm = f"{defs.MODENAME[ent['mode']]}:{ent['name']}"
        exp = ",".join(f"{k}={canon.valstr(v)}" for k, v in lay.attrs[bf].items())
        res.distinct((nm, bf, len(lay.payload)))
        if a.startswith("err"):
            errs[nm][bf].append((False, l, a))
            continue
        errs[nm][bf].append((True, l, a))
        got = attrs_of(a)
        if got != exp:
            if len(lay.payload) == 0 and any(v == "CH" for v in ent["defn"].values()):
                res.finding("class=empty-CH-payload", "empty CH payload exposes no attribute", dict(op=l, expected=exp, got=got))
            else:
                res.finding(f"def={nm};bf={bf};class=attrs-differ", "parsed attributes differ from the definition's decoding",
                            dict(op=l, expected=exp[:600], got=got[:600]))
        if len(samples) < 3:
            samples.append(dict(op=l[:100], attrs=got[:160]))
    for nm, bybf in errs.items():
        bad = {bf: [x for x in v if not x[0]] for bf, v in bybf.items()}
        if all(bad.get(bf) and len(bad[bf]) == len(bybf[bf]) for bf in (0, 1) if bf in bybf) and len(bybf) == 2:
            x = bad[1][0]
            res.finding(f"def={nm};class=unparseable", f"every payload laid out per definition is rejected: {x[2]}", dict(op=x[1]))
        else:
            for bf, v in bad.items():
                for x in v[:1]:
                    res.finding(f"def={nm};bf={bf};class=unparseable", f"payload laid out per definition is rejected: {x[2]}", dict(op=x[1]))
    # unreachable definitions cannot be exercised through the API
    for e in ctx.cat:
        if not e["reachable"]:
            res.hist["unreachable-def"] += 1
    res.assumptions = ["IEEE decode of R4/R8 compared as bit patterns; UTF-8 decoding of CH by Python's codec"]
    return res.finish("distinct (definition, bitfield view, payload length); expected attributes computed from the value tree independently of the walker", samples)


CHECKS = {}


def replay(pid, path):
    d = json.load(open(path))
    print(json.dumps(d, indent=1)[:4000])
    inp = d.get("input") or {}
    op = inp.get("op") if isinstance(inp, dict) else None
    if op:
        py = corr.run_python([op])[0]
        mo = canon.canon_readp_model(canon.canon_model_line(run_model([op])[0]))
        print("implementation:", py[:2000])
        print("model         :", mo[:2000])
    return 0


CHECKS["C01"] = check_C01
CHECKS["C02"] = check_C02


# ----------------------------------------------------------------------------- keyword helpers

def kw_tokens(kw, names=None):
    """dict rendered-name -> python value  ==> protocol tokens name:idx=val
    `names` maps a rendered name to its (base, idx) (from the layout); other names are taken as un-indexed"""
    toks = []
    for k, v in kw.items():
        base, idx = (names or {}).get(k, (k, []))
        if k.startswith("_HP") is False and names is not None and k not in names and ("_HP" + k) in names:
            base, idx = k, []
        toks.append(f"{base}:{'.'.join(map(str, idx))}={canon.valstr(v)}" if idx else f"{base}={canon.valstr(v)}")
    return toks


def scaled_fields(defn):
    out = {}

    def walk(d):
        for k, v in d.items():
            if isinstance(v, list):
                out[k] = (v[0], v[1])
            elif isinstance(v, tuple) and v[0] not in gen.BITTYPES:
                walk(v[1])
    walk(defn)
    return out


def has_var_group(defn):
    return any(isinstance(v, tuple) and v[0] == "None" for v in defn.values())


def kw_constructible(ent):
    """can the definition be selected from keyword arguments alone?"""
    if gen.is_cfgval(ent):
        return False
    pin = ent.get("pin")
    if pin is None:
        return True
    base = ent["name"]
    # payload-only selectors
    if base.startswith(("CFG-NMEA", "NAV-AOPSTATUS")) or base in ("RXM-PMREQ-S", "CFG-TP5"):
        return False
    # MGA messages without a variant selector take their identity from the payload only
    if ent["cls"] == b"\x13" and not any(ent["cls"] + ent["id"] in pyubx2.ubxvariants.VARIANTS[m] for m in (ent["mode"],)):
        return False
    return True


def selector_kwargs(ent, lay):
    """keywords that make the variant selector choose `ent` (the discriminator attribute)"""
    return {}


# ----------------------------------------------------------------------------- C03

def check_C03(ctx):
    res = Result()
    rng = ctx.rng
    FACTS.update(ctx.facts)
    lines, meta = [], []
    # (a) parse a laid-out frame, feed the reported attributes back into the constructor
    for ent, lay, fr in gen_frames(ctx, ctx.n(3, 30)):
        if not kw_constructible(ent) or has_var_group(ent["defn"]):
            continue
        for bf in (1, 0):
            kw = dict(lay.attrs[bf])
            if not kw:
                continue
            toks = kw_tokens(kw, lay.names)
            lines.append(f"construct {ent['cls'].hex()} {ent['id'].hex()} {ent['mode']} {bf} A " + " ".join(toks))
            meta.append(("roundtrip", ent, lay, bf, kw))
    # (b) random subsets of attributes, the rest must come out zero/blank
    for ent, lay, fr in gen_frames(ctx, ctx.n(2, 20)):
        if not kw_constructible(ent) or has_var_group(ent["defn"]):
            continue
        bf = 1
        full = dict(lay.attrs[bf])
        cs = gen.count_sources(ent["defn"])
        keep = {k: v for k, v in full.items() if rng.random() < 0.5 or k in cs or k in ("type", "version", "tpIdx", "datumNum")}
        if not keep:
            continue
        lines.append(f"construct {ent['cls'].hex()} {ent['id'].hex()} {ent['mode']} {bf} A " + " ".join(kw_tokens(keep, lay.names)))
        meta.append(("subset", ent, lay, bf, keep))
    py = do_corr(res, lines)
    samples = []
    for (kind, ent, lay, bf, kw), a, l in zip(meta, py, lines):
        nm = f"{defs.MODENAME[ent['mode']]}:{ent['name']}"
        res.distinct((kind, nm, bf))
        if not a.startswith("ok "):
            # the parser's own report is refused by the constructor
            key = classify_c03_refusal(ent, lay, bf, kw, a)
            res.finding(key, f"attribute values reported by the parser are refused by the constructor: {a}", dict(op=l[:3000]))
            continue
        got_payload = field(a, "payload")
        got_payload = b"" if got_payload in ("None", "-") else bytes.fromhex(got_payload)
        if kind == "roundtrip":
            if not payload_equal_mod_reserved(ent, lay, got_payload):
                key = classify_c03_mismatch(ent, lay, bf, kw, got_payload)
                res.finding(key, "payload regenerated from the parsed attributes differs from the original",
                            dict(op=l[:3000], original=lay.payload.hex(), regenerated=got_payload.hex()))
        else:
            # re-parse what was built: supplied values come back, omitted ones are zero/blank
            try:
                m = UBXReader.parse(bytes.fromhex(field(a, "ser")), msgmode=ent["mode"], parsebitfield=bool(bf))
            except Exception as e:  # noqa
                res.finding(f"def={nm};class=built-message-unparseable", f"built message does not parse: {canon.excname(e)}", dict(op=l[:3000]))
                continue
            back = {k: v for k, v in m.__dict__.items() if k[0] != "_"}
            for k, v in kw.items():
                if k in back and not same_value(back[k], v):
                    key = classify_c03_field(ent, k, v, back[k])
                    res.finding(key, f"attribute {k} supplied {v!r} parses back as {back[k]!r}", dict(op=l[:3000]))
            for k, v in back.items():
                if k not in kw and not is_blank(v):
                    res.finding(f"def={nm};field={k};class=omitted-not-zero", f"omitted attribute {k} = {v!r}", dict(op=l[:3000]))
        if len(samples) < 3:
            samples.append(l[:140])
    return res.finish("distinct (kind, definition, bitfield view): kind ∈ {parse→construct round trip, random keyword subset}", samples)


def same_value(a, b):
    if isinstance(a, float) and isinstance(b, float):
        return a == b or (a != a and b != b)
    return a == b and type(a) == type(b) or (isinstance(a, (int, float)) and isinstance(b, (int, float)) and not isinstance(a, bool) and a == b)


def is_blank(v):
    if isinstance(v, (bytes, bytearray)):
        return not any(v)
    if isinstance(v, list):
        return not any(v)
    if isinstance(v, str):
        return v == ""
    return v == 0


def reserved_mask(ent, lay):
    """bytes of the payload that belong to reserved flags / undeclared bits of bitfields (mask of ignorable bits)"""
    mask = bytearray(len(lay.payload))
    for rn, t, sc, off, b, kind in lay.fields:
        if kind == "bits":
            n = len(b)
            flags = find_flags(ent["defn"], rn)
            m = 0
            o = 0
            if flags is not None:
                for k, kt in flags.items():
                    w = gen.tsize(kt)
                    if k[0:8] == "reserved":
                        m |= ((1 << w) - 1) << o
                    o += w
                m |= ((1 << (8 * n)) - 1) & ~((1 << o) - 1)
            mb = m.to_bytes(n, "little")
            for i in range(n):
                mask[off + i] = mb[i]
    return bytes(mask)


def find_flags(defn, rendered):
    base = rendered.split("_")[0] if not rendered.startswith("_") else rendered
    def walk(d):
        for k, v in d.items():
            if isinstance(v, tuple):
                if v[0] in gen.BITTYPES:
                    if rendered == k or rendered.startswith(k + "_"):
                        return v[1]
                else:
                    r = walk(v[1])
                    if r is not None:
                        return r
        return None
    return walk(defn)


def payload_equal_mod_reserved(ent, lay, got):
    if len(got) != len(lay.payload):
        return False
    mask = reserved_mask(ent, lay)
    return all((a & ~m & 0xFF) == (b & ~m & 0xFF) for a, b, m in zip(lay.payload, got, mask))


def first_diff_field(ent, lay, got):
    mask = reserved_mask(ent, lay)
    for rn, t, sc, off, b, kind in lay.fields:
        seg = got[off:off + len(b)]
        if len(seg) != len(b) or any((x & ~m & 0xFF) != (y & ~m & 0xFF) for x, y, m in zip(b, seg, mask[off:off + len(b)])):
            return rn, t, sc, off, b, seg
    return None


def base_of(rn):
    parts = rn.split("_")
    while len(parts) > 1 and parts[-1].isdigit():
        parts.pop()
    return "_".join(parts)


def scale_key(sc):
    return repr(sc)


def type_range(t):
    n = gen.tsize(t)
    return (-(1 << (8 * n - 1)), (1 << (8 * n - 1)) - 1) if t[0] == "I" else (0, (1 << (8 * n)) - 1)


def scaled_culprit(lay):
    """first scaled field whose reported value does not regenerate its raw value through int(val/ares)"""
    for rn, t, sc, off, b, kind in lay.fields:
        if kind == "attr" and sc is not None and sc != 1 and t[0] in "UI":
            raw = int.from_bytes(b, "little", signed=(t[0] == "I"))
            rep = round(raw * sc, 12)
            try:
                again = int(rep / sc)
            except Exception:  # noqa
                again = None
            lo, hi = type_range(t)
            if again != raw:
                small = isinstance(sc, float) and (sc < 2 ** -39 or (rep == 0 and raw != 0))
                return rn, ("scale-below-rounding" if small else "scaled-truncation"), again
    return None


def reserved_shadow(ent):
    """a reserved flag inside a bitfield carrying the same name as an attribute of the definition"""
    names = set()
    flags = set()

    def walk(d):
        for k, v in d.items():
            if isinstance(v, tuple):
                if v[0] in gen.BITTYPES:
                    flags.update(x for x in v[1] if x[0:8] == "reserved")
                else:
                    walk(v[1])
            else:
                names.add(k)
    walk(ent["defn"])
    return bool(names & flags)


def count_from_flag(ent):
    cs = gen.count_sources(ent["defn"])
    for k, v in ent["defn"].items():
        if isinstance(v, tuple) and v[0] in gen.BITTYPES and cs & set(v[1]):
            return True
    return False


def own_name_clash(ctx_facts, ent):
    return [k for k in ent["defn"] if k in set(ctx_facts.get("ownNames", []))]


FACTS = {}


def classify_c03_mismatch(ent, lay, bf, kw, got):
    nm = f"{defs.MODENAME[ent['mode']]}:{ent['name']}"
    if any(f[0].startswith("_HP") for f in lay.fields):
        return "class=hp-merge-not-invertible"
    d = first_diff_field(ent, lay, got)
    if d is None:
        return f"def={nm};class=length-differs"
    rn, t, sc, off, b, seg = d
    base = base_of(rn)
    if t == "CH":
        try:
            b.decode("utf-8")
        except UnicodeDecodeError:
            return "class=CH-invalid-utf8-not-invertible"
    if sc is not None and sc != 1:
        raw = int.from_bytes(b, "little", signed=(t[0] == "I"))
        rep = round(raw * sc, 12)
        try:
            again = int(rep / sc)
        except Exception:  # noqa
            again = None
        got_raw = int.from_bytes(seg, "little", signed=(t[0] == "I")) if len(seg) == len(b) else None
        if again == got_raw and again != raw:
            small = isinstance(sc, float) and (sc < 2 ** -39 or (rep == 0 and raw != 0))
            return "site=round(val*ares,12);class=scale-below-rounding" if small else "site=int(val/ares);class=scaled-truncation"
    return f"def={nm};field={base};class=payload-differs"


def classify_c03_refusal(ent, lay, bf, kw, a):
    nm = f"{defs.MODENAME[ent['mode']]}:{ent['name']}"
    if own_name_clash(FACTS, ent):
        return f"def={nm};class=unparseable"
    if any(f[0].startswith("_HP") for f in lay.fields):
        return "class=hp-merge-not-invertible"
    if bf == 0 and count_from_flag(ent):
        return f"def={nm};bf=0;class=unparseable"
    c = scaled_culprit(lay)
    if c is not None:
        return "site=round(val*ares,12);class=scale-below-rounding" if c[1] == "scale-below-rounding" else "site=int(val/ares);class=scaled-truncation"
    if reserved_shadow(ent):
        return f"def={nm};class=reserved-flag-shadows-attribute"
    return f"def={nm};class=parsed-values-refused"


def classify_c03_field(ent, k, v, back):
    nm = f"{defs.MODENAME[ent['mode']]}:{ent['name']}"
    sf = scaled_fields(ent["defn"])
    b = base_of(k)
    if any(x.startswith("_HP") for x in sf):
        return "class=hp-merge-not-invertible"
    if b in sf and isinstance(v, (int, float)):
        t, sc = sf[b]
        try:
            if round(int(v / sc) * sc, 12) == back:
                if isinstance(sc, float) and (sc < 2 ** -39 or back == 0):
                    return "site=round(val*ares,12);class=scale-below-rounding"
                return "site=int(val/ares);class=scaled-truncation"
        except Exception:  # noqa
            pass
    return f"def={nm};field={b};class=value-not-preserved"


CHECKS["C03"] = check_C03
