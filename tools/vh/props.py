"""Per-property checks: correspondence operations + direct oracles on the real code."""
import collections, hashlib, io, itertools, json, os, random, struct, sys, tempfile, threading, time

from . import canon, corr, defs, gen
from .driver import run_model

import pyubx2
import pyubx2.ubxvariants
from pyubx2 import UBXMessage, UBXReader, GET, SET, POLL
from pyubx2 import ubxhelpers as uh
from pyubx2.ubxtypes_core import UBX_MSGIDS, UBX_CLASSES
import pyubx2.ubxtypes_configdb as ubc
from pyubx2.exceptions import UBXMessageError, UBXParseError, UBXStreamError, UBXTypeError

UBXERR = (UBXMessageError, UBXParseError, UBXStreamError, UBXTypeError)
UBXERRNAMES = {"UBXMessageError", "UBXParseError", "UBXStreamError", "UBXTypeError"}


class Ctx:
    def __init__(self, pid, tier, seed, facts, build):
        self.pid, self.tier, self.seed, self.facts, self.build = pid, tier, seed, facts, build
        self.rng = random.Random(f"{pid}-{seed}")
        canon.READ_CATCH = set(facts.get("readCatch", [])) or None
        self.cat = defs.catalogue()
        self.reach = [e for e in self.cat if e["reachable"]]

    escalated = False   # set when an equivalence theorem between the code as written and the model stopped checking

    def n(self, quick, thorough):
        return thorough if (self.tier == "thorough" or self.escalated) else quick


class Result:
    def __init__(self):
        self.findings = []
        self.diffs = []
        self.coverage = dict(evaluations=0, distinct_nontrivial=0, rule="", samples=[])
        self.assumptions = []
        self._distinct = set()
        self.hist = collections.Counter()

    def finding(self, key, what, inp=None):
        self.findings.append(dict(key=key, what=what, input=inp))

    def count(self, n=1):
        self.coverage["evaluations"] += n

    def distinct(self, token):
        self._distinct.add(token)

    def finish(self, rule, samples):
        self.coverage["distinct_nontrivial"] = len(self._distinct)
        self.coverage["rule"] = rule
        self.coverage["samples"] = samples[:6]
        self.coverage["histogram"] = dict(self.hist.most_common(40))
        return self


PYL_OPS = {"cksum", "isvalid", "inputmode", "protocol", "getbits", "parse", "readp", "cfgset", "cfgdel", "cfgpoll", "construct", "cfgkey"}
PYL_MAX = 25000
STR_MAX = 3000
PYL_MAX_READP = 4000      # whole reader runs: `__next__` → `read` → `_parse_*` / `_do_error` interpreted per pass


def do_corr(res, lines):
    """run correspondence on `lines`; record diffs; return python answers.
    Operations whose code is translated (tools/translate_code.py) are asked a second time with the `pyl-` prefix: the
    driver then answers by interpreting the working tree's code under the PyLite semantics, so CPython, the hand model
    and the interpreted code are compared on the same inputs."""
    pyl = [("pyl-" + l) for l in lines if l.split(" ", 1)[0] in PYL_OPS and len(l) < 20000]
    if pyl and pyl[0].startswith("pyl-readp"):
        pyl = [l for l in pyl if len(l) < 4000]
        if len(pyl) > PYL_MAX_READP:
            pyl = random.Random(len(pyl)).sample(pyl, PYL_MAX_READP)
    if len(pyl) > PYL_MAX:
        pyl = random.Random(len(pyl)).sample(pyl, PYL_MAX)
    if pyl:
        n2, diffs2, _ = corr.compare(pyl)
        res.count(n2)
        res.coverage["pylite_interpreted_ops"] = res.coverage.get("pylite_interpreted_ops", 0) + n2
        for l, a, b in diffs2:
            # an operation the PyLite fragment cannot run (operand combination, builtin or name outside the fragment,
            # function not translatable) says nothing about the code: it is counted, not reported as a difference —
            # the hand model answers the same operation below
            if b in ("unsupported", "bad-value", "err ?", "err NameError") or "pyl-" in b or "<unsupported>" in b:
                res.coverage["pylite_not_interpretable"] = res.coverage.get("pylite_not_interpretable", 0) + 1
                continue
            res.diffs.append(dict(op=l, py=a, model=b))
    # `str(m)` of the message a `parse` / `construct` line denotes: CPython, the model's `strExc`, and the translated
    # `__str__` interpreted (`pyl-str …`)
    strl = [l for l in lines if l.split(" ", 1)[0] in ("parse", "construct") and len(l) < 20000]
    if len(strl) > STR_MAX:
        strl = random.Random(len(strl)).sample(strl, STR_MAX)
    if strl:
        n3, diffs3, _ = corr.compare(["str " + l for l in strl] + ["pyl-str " + l for l in strl])
        res.count(n3)
        res.coverage["str_ops_three_way"] = res.coverage.get("str_ops_three_way", 0) + n3
        for l, a, b in diffs3:
            if b in ("unsupported", "bad-value") or "pyl-" in b:
                res.coverage["pylite_not_interpretable"] = res.coverage.get("pylite_not_interpretable", 0) + 1
                continue
            res.diffs.append(dict(op=l, py=a, model=b))
    # the implementation answers all lines in one process, in order: failing operations are woven in between them
    # (a frame cut inside its payload, a construction with one value that cannot fit), so that what a line answers is
    # also what it answers after an operation that was abandoned half-way
    rr = random.Random(len(lines) * 7919 + 13)
    woven, real = [], []
    for l in lines:
        if rr.random() < 0.04 and len(woven) - len(real) < 400:
            pool = fail_pool()
            d = rr.choice(pool) if pool and rr.random() < 0.5 else disturbed(rr, l)
            if d:
                woven.append(d)
        real.append(len(woven))
        woven.append(l)
    n, diffs, pyw = corr.compare(woven)
    res.count(n)
    res.coverage["traces_validated_against_impl"] = res.coverage.get("traces_validated_against_impl", 0) + n
    res.coverage["failing_ops_woven_in"] = res.coverage.get("failing_ops_woven_in", 0) + len(woven) - len(lines)
    for l, a, b in diffs:
        res.diffs.append(dict(op=l, py=a, model=b))
    return [pyw[i] for i in real]


_POOL = None


def fail_pool():
    """frames of grouped message types, cut inside the payload, that the implementation *rejects* (most cuts are
    accepted: a short slice still decodes as an integer) — found once per process by trying"""
    global _POOL
    if _POOL is None:
        rr, pool = random.Random(4242), []
        for ent in defs.catalogue():
            if not ent["reachable"] or not any(isinstance(v, tuple) and v[0] not in gen.BITTYPES for v in ent["defn"].values()):
                continue
            lay = gen.layout(rr, ent, maxrep=3)
            if lay is None or len(lay.payload) < 2:
                continue
            for _ in range(40):
                cut = lay.payload[:rr.randrange(1, len(lay.payload))]
                l = f"parse {ent['mode']} 1 1 {gen.frame(ent['cls'], ent['id'], cut).hex()}"
                if canon.handle(l).startswith("err"):
                    pool.append(l)
                    break
            # … and a construction from keywords that is refused at a value inside a group
            if len(pool) < 80 and lay.names:
                toks = kw_tokens(lay.attrs[1], lay.names)
                grouped = [k for k, t in enumerate(toks) if ":" in t.split("=", 1)[0]]
                if grouped:
                    k = grouped[-1]
                    toks[k] = toks[k].split("=", 1)[0] + "=i99999999999999999999"
                    l = f"construct {ent['cls'].hex()} {ent['id'].hex()} {ent['mode']} 1 A " + " ".join(toks)
                    if len(l) < 6000 and canon.handle(l).startswith("err"):
                        pool.append(l)
        _POOL = pool
    return _POOL


def disturbed(rr, line):
    """an operation derived from `line` that is likely to fail part-way: a `parse` whose payload is cut (length field
    and checksum made right again), a keyword `construct` with one value far too large"""
    t = line.split(" ")
    try:
        if t[0] == "parse" and len(t) == 5:
            fr = bytes.fromhex(t[4])
            if len(fr) < 8 + 4 or fr[:2] != b"\xb5\x62":
                return None
            pl = fr[6:-2]
            cut = pl[:rr.randrange(1, len(pl))]
            return f"parse {t[1]} {t[2]} {t[3]} {gen.frame(fr[2:3], fr[3:4], cut).hex()}"
        if t[0] == "construct" and len(t) > 6 and t[5] == "A":
            grouped = [k for k in range(6, len(t)) if ":" in t[k].split("=", 1)[0]]
            k = rr.choice(grouped) if grouped and rr.random() < 0.7 else rr.randrange(6, len(t))
            name = t[k].split("=", 1)[0]
            return " ".join(t[:k] + [name + "=i99999999999999999999"] + t[k + 1:])
    except Exception:  # noqa
        return None
    return None


def attrs_of(ans):
    """attrs=[…] part of a dump answer"""
    i = ans.index("attrs=[") + 7
    j = ans.index("] ser=") if "] ser=" in ans else ans.index("]", i)
    return ans[i:j]


def field(ans, name):
    i = ans.index(" " + name + "=") + len(name) + 2
    j = ans.find(" ", i)
    return ans[i:j if j >= 0 else None]


# ----------------------------------------------------------------------------- frame generation

def gen_frames(ctx, per_def, maxrep=3):
    """[(ent, layout, frame bytes)] with payloads laid out exactly per definition"""
    out = []
    for ent in ctx.reach:
        for _ in range(per_def):
            lay = gen.layout(ctx.rng, ent, maxrep=maxrep)
            if lay is None:
                continue
            out.append((ent, lay, gen.frame(ent["cls"], ent["id"], lay.payload)))
    return out


def odd_lengths(rng, payload):
    """payloads shorter / longer than the definition"""
    outs = [b"", payload[:1], payload[:-1], payload + b"\x00", payload + bytes(rng.getrandbits(8) for _ in range(3))]
    if len(payload) > 2:
        outs.append(payload[:rng.randrange(1, len(payload))])
    return outs


def undocumented_ids(rng, k):
    known = set(x[:2] for x in UBX_MSGIDS)
    out = []
    while len(out) < k:
        c = bytes([rng.getrandbits(8)])
        i = bytes([rng.getrandbits(8)])
        if c + i not in known:
            out.append((c, i))
    # undocumented id in a documented class, too
    for c in (b"\x01", b"\x06", b"\x13", b"\x0a"):
        for i in range(256):
            if c + bytes([i]) not in known:
                out.append((c, bytes([i])))
                break
    return out


LENGTH_STRATA = [0, 1, 2, 3, 7, 8, 9, 127, 128, 254, 255, 256, 257, 511, 512, 513, 768, 1023, 1024, 4095, 4096, 32767, 32768,
                 65279, 65280, 65281, 65534, 65535]


def steer_checksum(c, i, pl, tgt):
    """the payload with its last two bytes replaced so that the frame's checksum is the pair tgt"""
    body = c + i + len(pl).to_bytes(2, "little") + pl[:-2] + b"\x00\x00"
    a = b = 0
    for x in body:
        a = (a + x) % 256
        b = (b + a) % 256
    x = ((tgt[1] - b) - (tgt[0] - a)) % 256
    y = ((tgt[0] - a) - x) % 256
    out = pl[:-2] + bytes((x, y))
    assert gen.frame(c, i, out)[-2:] == tgt
    return out


def strata_frames(ctx, lengths=None):
    """frames whose payload length sits on a byte / word boundary: undocumented id, INF-NOTICE (CH, any length),
    MON-VER and NAV-SAT when the length fits their group structure"""
    rng = ctx.rng
    out = []
    for L in (lengths or LENGTH_STRATA):
        pl = bytes(rng.getrandbits(8) for _ in range(L))
        out.append((0, b"\x77", b"\x05", pl))
        if L >= 256 and L % 256 == 0:
            # payloads that add nothing to the Fletcher sums (all zero; 80 00 80 00 …): a frame whose length field is
            # misread as shorter still passes a checksum taken over the shorter span
            out.append((0, b"\x77", b"\x01", bytes(L)))
            out.append((0, b"\x02", b"\x84", bytes(L)))
            out.append((0, b"\x77", b"\x01", b"\x80\x00\x80\x00" + bytes(L - 4)))
        out.append((0, b"\x04", b"\x02", bytes(rng.choice(b"abc xyz") for _ in range(L))))
        out.append((rng.choice([1, 2]), b"\x06", b"\x01", pl))                 # CFG-MSG with a payload of the wrong size
        if L >= 40 and (L - 40) % 30 == 0:
            out.append((0, b"\x0a", b"\x04", pl))                               # MON-VER
        if L >= 8 and (L - 8) % 12 == 0 and (L - 8) // 12 < 256:
            p = bytearray(pl); p[5] = (L - 8) // 12
            out.append((0, b"\x01", b"\x35", bytes(p)))                         # NAV-SAT
    if lengths is None:
        # checksums that look like something else (CR LF, the sync pair, "$G", an RTCM lead-in, zeros): the last two
        # payload bytes are solved so that the Fletcher sums come out as the wanted pair
        for tgt in (b"\r\n", b"\n\n", b"\xb5\x62", b"$G", b"$P", b"\xd3\x00", b"\x00\x00", b"\xff\xff", b"  ", b"\x00\x0a", b"\x0d\x00"):
            for mode, c, i, L in ((0, b"\x77", b"\x05", rng.choice([2, 3, 11])), (0, b"\x04", b"\x02", rng.choice([2, 9, 40])),
                                  (1, b"\x06", b"\x08", 6), (0, b"\x01", b"\x07", 92), (2, b"\x06", b"\x01", 2)):
                out.append((mode, c, i, steer_checksum(c, i, bytes(rng.getrandbits(8) for _ in range(L)), tgt)))
        # class / id / payload bytes that look like framing bytes of the three protocols (sync chars, '$', 0xd3, LF):
        # a frame is a frame whatever its content
        special = [0xb5, 0x62, 0x24, 0xd3, 0x0a, 0x00, 0xff]
        for c in special:
            for i in special:
                for pl in (b"", b"\xb5\x62", bytes([c, i]) + b"\xb5\x62\x00\x00", b"\x62\xb5\xd3\x00\x00\x24\x47\x0a" + bytes(rng.getrandbits(8) for _ in range(4))):
                    out.append((0, bytes([c]), bytes([i]), pl))
    return out


# ----------------------------------------------------------------------------- C01

def check_C01(ctx):
    res = Result()
    rng = ctx.rng
    lines, meta = [], []
    for ent, lay, fr in gen_frames(ctx, ctx.n(2, 12)):
        variants = [lay.payload] + (odd_lengths(rng, lay.payload) if rng.random() < ctx.n(0.5, 1.0) else [])
        for p in variants:
            f = gen.frame(ent["cls"], ent["id"], p)
            for mode in ({ent["mode"], rng.choice([0, 1, 2, 3])}):
                bf = rng.choice([0, 1])
                lines.append(f"parse {mode} 1 {bf} {f.hex()}")
                meta.append((ent["name"], f))
                res.hist[f"mode{mode}"] += 1
    for c, i in undocumented_ids(rng, ctx.n(40, 400)):
        p = bytes(rng.getrandbits(8) for _ in range(rng.choice([0, 1, 7, 40])))
        f = gen.frame(c, i, p)
        for mode in (0, 1, 2, 3):
            lines.append(f"parse {mode} 1 {rng.choice([0, 1])} {f.hex()}")
            meta.append(("undoc", f))
    for mode, c, i, pl in strata_frames(ctx):
        f = gen.frame(c, i, pl)
        for m_ in {mode, 3}:
            lines.append(f"parse {m_} 1 {rng.choice([0, 1])} {f.hex()}")
            meta.append(("strata", f))
    py = do_corr(res, lines)
    samples = []
    for (name, f), a, l in zip(meta, py, lines):
        if not a.startswith("ok "):
            res.hist["rejected:" + a[4:]] += 1
            continue
        res.distinct((name, len(f)))
        res.hist["accepted"] += 1
        ln = int.from_bytes(f[4:6], "little")
        pay = f[6:6 + ln]
        exp_payload = "None" if ln == 0 else pay.hex()
        ok = (field(a, "ser") == f.hex() and field(a, "cls") == f[2:3].hex() and field(a, "id") == f[3:4].hex()
              and field(a, "len") == f[4:6].hex() and field(a, "payload") == exp_payload
              and field(a, "repr") == "ok:" + f.hex())
        if not ok:
            res.finding(f"def={name};len={ln}", "parse→serialize / fields / eval(repr) do not reproduce the frame", dict(op=l, answer=a[:400]))
        if len(samples) < 4:
            samples.append(l[:120])
    res.assumptions = ["payload None is the library's representation of an empty payload"]
    return res.finish("one case per (definition, frame length) accepted by parse; all defs × exact/short/long payloads × modes, undocumented ids, 65535-byte payload", samples)


# ----------------------------------------------------------------------------- C02

def check_C02(ctx):
    res = Result()
    for bn, line, key, first in source_dup_keys(["ubxtypes_get.py", "ubxtypes_set.py", "ubxtypes_poll.py"]):
        res.finding(f"dupkey={bn}:{key}", f"{bn}:{line}: the definition as written names {key} twice (first at line {first}); "
                    "the loaded definition has one field fewer, so a payload laid out as written is decoded at shifted offsets",
                    dict(file=bn, line=line, key=key, first_line=first))
    lines, meta = [], []
    for ent, lay, fr in gen_frames(ctx, ctx.n(10, 150), maxrep=ctx.rng.choice([3, 5])):
        for bf in (1, 0):
            lines.append(f"parse {ent['mode']} 1 {bf} {fr.hex()}")
            meta.append((ent, lay, bf))
    # a large repeat count for every variable / counted group (every count a size field can express, sampled high)
    for ent in ctx.reach:
        if any(isinstance(v, tuple) and v[0] not in gen.BITTYPES for v in ent["defn"].values()):
            lay = gen.layout(ctx.rng, ent, maxrep=ctx.n(40, 255))
            if lay is not None and len(lay.payload) < 60000:
                fr = gen.frame(ent["cls"], ent["id"], lay.payload)
                for bf in (1, 0):
                    lines.append(f"parse {ent['mode']} 1 {bf} {fr.hex()}")
                    meta.append((ent, lay, bf))
    # variable-by-size groups: the repeat count is floor(remaining length / group size); a stray tail shorter than
    # one group member changes nothing
    for ent in ctx.reach:
        if has_var_group(ent["defn"]) and not gen.is_cfgval(ent):
            g = spec_group_size(ent["defn"])
            if not g or g < 2:
                continue
            for _ in range(ctx.n(2, 10)):
                lay = gen.layout(ctx.rng, ent, maxrep=ctx.rng.choice([1, 2, 3, 4]))
                if lay is None:
                    continue
                for t in sorted({1, g // 2, (g + 1) // 2, g - 1}):
                    if 0 < t < g:
                        fr = gen.frame(ent["cls"], ent["id"], lay.payload + bytes(ctx.rng.getrandbits(8) for _ in range(t)))
                        bf = ctx.rng.choice([0, 1])
                        lines.append(f"parse {ent['mode']} 1 {bf} {fr.hex()}")
                        meta.append((ent, lay, bf))
    py = do_corr(res, lines)
    samples = []
    errs = collections.defaultdict(lambda: collections.defaultdict(list))   # def -> bf -> [ok?]
    for (ent, lay, bf), a, l in zip(meta, py, lines):
        nm = f"{defs.MODENAME[ent['mode']]}:{ent['name']}"
        exp = ",".join(f"{k}={canon.valstr(v)}" for k, v in lay.attrs[bf].items())
        res.distinct((nm, bf, len(lay.payload)))
        if a.startswith("err"):
            errs[nm][bf].append((False, l, a))
            continue
        errs[nm][bf].append((True, l, a))
        got = attrs_of(a)
        if got != exp:
            if len(lay.payload) == 0 and any(v == "CH" for v in ent["defn"].values()):
                res.finding("class=empty-CH-payload", "empty CH payload exposes no attribute", dict(op=l, expected=exp, got=got))
            else:
                res.finding(f"def={nm};bf={bf};class=attrs-differ", "parsed attributes differ from the definition's decoding",
                            dict(op=l, expected=exp[:600], got=got[:600]))
        if len(samples) < 3:
            samples.append(dict(op=l[:100], attrs=got[:160]))
    for nm, bybf in errs.items():
        bad = {bf: [x for x in v if not x[0]] for bf, v in bybf.items()}
        if all(bad.get(bf) and len(bad[bf]) == len(bybf[bf]) for bf in (0, 1) if bf in bybf) and len(bybf) == 2:
            x = bad[1][0]
            res.finding(f"def={nm};class=unparseable", f"every payload laid out per definition is rejected: {x[2]}", dict(op=x[1]))
        else:
            for bf, v in bad.items():
                for x in v[:1]:
                    res.finding(f"def={nm};bf={bf};class=unparseable", f"payload laid out per definition is rejected: {x[2]}", dict(op=x[1]))
    # unreachable definitions cannot be exercised through the API
    for e in ctx.cat:
        if not e["reachable"]:
            res.hist["unreachable-def"] += 1
    res.assumptions = ["IEEE decode of R4/R8 compared as bit patterns; UTF-8 decoding of CH by Python's codec"]
    return res.finish("distinct (definition, bitfield view, payload length); expected attributes computed from the value tree independently of the walker", samples)


CHECKS = {}


def replay(pid, path):
    d = json.load(open(path))
    print(json.dumps(d, indent=1)[:4000])
    inp = d.get("input") or {}
    op = inp.get("op") if isinstance(inp, dict) else None
    if op:
        py = corr.run_python([op])[0]
        mo = canon.canon_readp_model(canon.canon_model_line(run_model([op])[0]))
        print("implementation:", py[:2000])
        print("model         :", mo[:2000])
    return 0


CHECKS["C01"] = check_C01
CHECKS["C02"] = check_C02


# ----------------------------------------------------------------------------- keyword helpers

def kw_tokens(kw, names=None):
    """dict rendered-name -> python value  ==> protocol tokens name:idx=val
    `names` maps a rendered name to its (base, idx) (from the layout); other names are taken as un-indexed"""
    toks = []
    for k, v in kw.items():
        base, idx = (names or {}).get(k, (k, []))
        if k.startswith("_HP") is False and names is not None and k not in names and ("_HP" + k) in names:
            base, idx = k, []
        toks.append(f"{base}:{'.'.join(map(str, idx))}={canon.valstr(v)}" if idx else f"{base}={canon.valstr(v)}")
    return toks


def scaled_fields(defn):
    out = {}

    def walk(d):
        for k, v in d.items():
            if isinstance(v, list):
                out[k] = (v[0], v[1])
            elif isinstance(v, tuple) and v[0] not in gen.BITTYPES:
                walk(v[1])
    walk(defn)
    return out


def has_var_group(defn):
    return any(isinstance(v, tuple) and v[0] == "None" for v in defn.values())


def spec_group_size(defn):
    """byte size of one member of the (top-level) variable-by-size group"""
    for v in defn.values():
        if isinstance(v, tuple) and v[0] == "None":
            tot = 0
            for x in v[1].values():
                t = x[0] if isinstance(x, (tuple, list)) else x
                if not isinstance(t, str) or t == "CH":
                    return None
                tot += gen.tsize(t)
            return tot
    return None


def kw_constructible(ent):
    """can the definition be selected from keyword arguments alone?"""
    if gen.is_cfgval(ent):
        return False
    pin = ent.get("pin")
    if pin is None:
        return True
    base = ent["name"]
    # payload-only selectors
    if base.startswith(("CFG-NMEA", "NAV-AOPSTATUS")) or base in ("RXM-PMREQ-S", "CFG-TP5"):
        return False
    # MGA messages without a variant selector take their identity from the payload only: keyword construction is then
    # either refused (not constructible: skipped by the callers, see `kw_maybe`) or must still encode what was supplied
    return True


def kw_maybe(ent):
    """keyword construction of this definition may legitimately be refused (no selector registered for its class/id)"""
    return ent["cls"] == b"\x13" and ent.get("pin") is not None and not any(
        ent["cls"] + ent["id"] in pyubx2.ubxvariants.VARIANTS[m] for m in (ent["mode"],))


def selector_kwargs(ent, lay):
    """keywords that make the variant selector choose `ent` (the discriminator attribute)"""
    return {}


# ----------------------------------------------------------------------------- C03

def check_C03(ctx):
    res = Result()
    rng = ctx.rng
    FACTS.update(ctx.facts)
    lines, meta = [], []
    # (a) parse a laid-out frame, feed the reported attributes back into the constructor
    for ent, lay, fr in gen_frames(ctx, ctx.n(8, 120)):
        if not kw_constructible(ent) or has_var_group(ent["defn"]):
            continue
        for bf in (1, 0):
            kw = dict(lay.attrs[bf])
            if not kw:
                continue
            toks = kw_tokens(kw, lay.names)
            lines.append(f"construct {ent['cls'].hex()} {ent['id'].hex()} {ent['mode']} {bf} A " + " ".join(toks))
            meta.append(("roundtrip", ent, lay, bf, kw))
    # (b) random subsets of attributes, the rest must come out zero/blank
    for ent, lay, fr in gen_frames(ctx, ctx.n(5, 80)):
        if not kw_constructible(ent) or has_var_group(ent["defn"]):
            continue
        bf = 1
        full = dict(lay.attrs[bf])
        cs = gen.count_sources(ent["defn"])
        keep = {k: v for k, v in full.items() if rng.random() < 0.5 or k in cs or k in ("type", "version", "tpIdx", "datumNum")}
        if not keep:
            continue
        lines.append(f"construct {ent['cls'].hex()} {ent['id'].hex()} {ent['mode']} {bf} A " + " ".join(kw_tokens(keep, lay.names)))
        meta.append(("subset", ent, lay, bf, keep))
    # (c) a single un-indexed attribute supplied with a zero / blank value: a supplied value is a supplied value,
    #     however falsy (variant discriminators such as datumNum=0, type=0 included)
    def zero_like(v):
        if isinstance(v, bool) or isinstance(v, int):
            return 0
        if isinstance(v, float):
            return 0.0
        if isinstance(v, bytes):
            return bytes(len(v))
        if isinstance(v, list):
            return [0] * len(v)
        return None
    for ent, lay, fr in gen_frames(ctx, 1):
        if not kw_constructible(ent) or has_var_group(ent["defn"]):
            continue
        full = dict(lay.attrs[1])
        plain = [k for k in full if lay.names.get(k, (k, []))[1] == [] and zero_like(full[k]) is not None]
        pick = [k for k in plain if k in ("type", "version", "tpIdx", "datumNum")]
        rest = [k for k in plain if k not in pick]
        rng.shuffle(rest)
        for k in pick + rest[:ctx.n(2, 12)]:
            kw1 = {k: zero_like(full[k])}
            lines.append(f"construct {ent['cls'].hex()} {ent['id'].hex()} {ent['mode']} 1 A " + " ".join(kw_tokens(kw1, lay.names)))
            meta.append(("zero-single", ent, lay, 1, kw1))
    py = do_corr(res, lines)
    samples = []
    for (kind, ent, lay, bf, kw), a, l in zip(meta, py, lines):
        nm = f"{defs.MODENAME[ent['mode']]}:{ent['name']}"
        res.distinct((kind, nm, bf))
        if not a.startswith("ok "):
            if kind == "zero-single" or (kw_maybe(ent) and a == "err UBXMessageError"):
                continue    # a lone keyword may legitimately not select this variant / be refused; only silent loss counts
            # the parser's own report is refused by the constructor
            key = classify_c03_refusal(ent, lay, bf, kw, a)
            res.finding(key, f"attribute values reported by the parser are refused by the constructor: {a}", dict(op=l[:3000]))
            continue
        got_payload = field(a, "payload")
        got_payload = b"" if got_payload in ("None", "-") else bytes.fromhex(got_payload)
        if kind == "roundtrip":
            if not payload_equal_mod_reserved(ent, lay, got_payload) and not only_nan_fields_differ(ent, lay, got_payload):
                key = classify_c03_mismatch(ent, lay, bf, kw, got_payload)
                res.finding(key, "payload regenerated from the parsed attributes differs from the original",
                            dict(op=l[:3000], original=lay.payload.hex(), regenerated=got_payload.hex()))
        else:
            # re-parse what was built: supplied values come back, omitted ones are zero/blank
            try:
                m = UBXReader.parse(bytes.fromhex(field(a, "ser")), msgmode=ent["mode"], parsebitfield=bool(bf))
            except Exception as e:  # noqa
                res.finding(f"def={nm};class=built-message-unparseable", f"built message does not parse: {canon.excname(e)}", dict(op=l[:3000]))
                continue
            back = {k: v for k, v in m.__dict__.items() if k[0] != "_"}
            for k, v in kw.items():
                if k in back and not same_value(back[k], v):
                    key = classify_c03_field(ent, k, v, back[k])
                    res.finding(key, f"attribute {k} supplied {v!r} parses back as {back[k]!r}", dict(op=l[:3000]))
                elif k not in back and v == "" and ent["defn"].get(k) == "CH":
                    res.finding("class=empty-CH-payload", f"attribute {k} supplied '' is absent from the parsed message (zero-length payload is read as None)", dict(op=l[:3000]))
                elif k not in back and lay.names.get(k, (k, []))[1] == []:
                    # (members of repeating groups exist only as far as the counts say — ESF-MEAS adds one for
                    #  calibTtagValid — so only un-indexed attributes are required to come back)
                    res.finding(f"def={nm};field={base_of(k)};class=supplied-attribute-lost", f"attribute {k} supplied {v!r} is absent from the parsed message", dict(op=l[:3000]))
            for k, v in back.items():
                if k not in kw and not is_blank(v):
                    res.finding(f"def={nm};field={k};class=omitted-not-zero", f"omitted attribute {k} = {v!r}", dict(op=l[:3000]))
        if len(samples) < 3:
            samples.append(l[:140])
    # (d) "omitted attributes hold zero" for every history: the objects a message hands out for its omitted attributes
    #     (lists for the A types) are the caller's to edit — a later construction must still start from zeros
    for ent in ctx.reach:
        if not kw_constructible(ent) or has_var_group(ent["defn"]):
            continue
        def has_array(d):
            for t in d.values():
                if isinstance(t, str) and t[:1] == "A":
                    return True
                if isinstance(t, tuple) and isinstance(t[1], dict) and has_array(t[1]):
                    return True
            return False
        if not has_array(ent["defn"]):
            continue
        base = defs.VARIANT_PINS.get((ent["mode"], ent["name"]), (ent["name"], None))
        try:
            kws = dict(base[1] or {})
            m1 = UBXMessage(ent["cls"], ent["id"], ent["mode"], **kws) if kws else None
            if m1 is None:
                # no keyword needed to select the definition: supply one harmless scalar so that the attribute walk runs
                first = next((k for k, t in ent["defn"].items() if isinstance(t, str) and t[:1] in "UIE"), None)
                if first is None:
                    continue
                kws = {first: 0}
                m1 = UBXMessage(ent["cls"], ent["id"], ent["mode"], **kws)
            before = m1.serialize()
            edited = 0
            for k, v in list(m1.__dict__.items()):
                if k[0] != "_" and isinstance(v, list) and v:
                    v[0] = 17
                    v[-1] = 255
                    edited += 1
            m2 = UBXMessage(ent["cls"], ent["id"], ent["mode"], **kws)
            res.count()
            if edited and m2.serialize() != before:
                res.finding(f"def={defs.MODENAME[ent['mode']]}:{ent['name']};class=omitted-not-zero-after-edit",
                            "editing the list a message reports for an omitted array attribute changes what later constructions encode",
                            dict(cls=ent["cls"].hex(), id=ent["id"].hex(), mode=ent["mode"], kwargs={k: repr(v) for k, v in kws.items()}))
        except Exception:  # noqa  (constructions that are refused are other oracles' business)
            continue
    return res.finish("distinct (kind, definition, bitfield view): kind ∈ {parse→construct round trip, random keyword subset}", samples)


def same_value(a, b):
    if isinstance(a, float) and isinstance(b, float):
        return a == b or (a != a and b != b)
    return a == b and type(a) == type(b) or (isinstance(a, (int, float)) and isinstance(b, (int, float)) and not isinstance(a, bool) and a == b)


def is_blank(v):
    if isinstance(v, (bytes, bytearray)):
        return not any(v)
    if isinstance(v, list):
        return not any(v)
    if isinstance(v, str):
        return v == ""
    return v == 0


def reserved_mask(ent, lay):
    """bytes of the payload that belong to reserved flags / undeclared bits of bitfields (mask of ignorable bits)"""
    mask = bytearray(len(lay.payload))
    for rn, t, sc, off, b, kind in lay.fields:
        if kind == "bits":
            n = len(b)
            flags = find_flags(ent["defn"], rn)
            m = 0
            o = 0
            if flags is not None:
                for k, kt in flags.items():
                    w = gen.tsize(kt)
                    if k[0:8] == "reserved":
                        m |= ((1 << w) - 1) << o
                    o += w
                m |= ((1 << (8 * n)) - 1) & ~((1 << o) - 1)
            mb = m.to_bytes(n, "little")
            for i in range(n):
                mask[off + i] = mb[i]
    return bytes(mask)


def find_flags(defn, rendered):
    base = rendered.split("_")[0] if not rendered.startswith("_") else rendered
    def walk(d):
        for k, v in d.items():
            if isinstance(v, tuple):
                if v[0] in gen.BITTYPES:
                    if rendered == k or rendered.startswith(k + "_"):
                        return v[1]
                else:
                    r = walk(v[1])
                    if r is not None:
                        return r
        return None
    return walk(defn)


def payload_equal_mod_reserved(ent, lay, got):
    if len(got) != len(lay.payload):
        return False
    mask = reserved_mask(ent, lay)
    return all((a & ~m & 0xFF) == (b & ~m & 0xFF) for a, b, m in zip(lay.payload, got, mask))


def only_nan_fields_differ(ent, lay, got):
    """NaN payload bits of R4/R8 fields are not compared (the harness carries NaN as one token)"""
    if len(got) != len(lay.payload):
        return False
    mask = reserved_mask(ent, lay)
    for rn, t, sc, off, b, kind in lay.fields:
        seg = got[off:off + len(b)]
        if any((x & ~m & 0xFF) != (y & ~m & 0xFF) for x, y, m in zip(b, seg, mask[off:off + len(b)])):
            if not (t[0] == "R" and decode_nan(t, b) and decode_nan(t, seg)):
                return False
    return True


def decode_nan(t, b):
    x = struct.unpack("<f" if len(b) == 4 else "<d", b)[0]
    return x != x


def first_diff_field(ent, lay, got):
    mask = reserved_mask(ent, lay)
    for rn, t, sc, off, b, kind in lay.fields:
        seg = got[off:off + len(b)]
        if len(seg) != len(b) or any((x & ~m & 0xFF) != (y & ~m & 0xFF) for x, y, m in zip(b, seg, mask[off:off + len(b)])):
            return rn, t, sc, off, b, seg
    return None


def base_of(rn):
    parts = rn.split("_")
    while len(parts) > 1 and parts[-1].isdigit():
        parts.pop()
    return "_".join(parts)


def scale_key(sc):
    return repr(sc)


def type_range(t):
    n = gen.tsize(t)
    return (-(1 << (8 * n - 1)), (1 << (8 * n - 1)) - 1) if t[0] == "I" else (0, (1 << (8 * n)) - 1)


def scaled_culprit(lay):
    """first scaled field whose reported value does not regenerate its raw value through int(val/ares)"""
    for rn, t, sc, off, b, kind in lay.fields:
        if kind == "attr" and sc is not None and sc != 1 and t[0] in "UI":
            raw = int.from_bytes(b, "little", signed=(t[0] == "I"))
            rep = round(raw * sc, 12)
            try:
                again = int(rep / sc)
            except Exception:  # noqa
                again = None
            lo, hi = type_range(t)
            if again != raw:
                small = isinstance(sc, float) and (sc < 2 ** -39 or (rep == 0 and raw != 0))
                return rn, ("scale-below-rounding" if small else "scaled-truncation"), again
    return None


def reserved_shadow(ent):
    """a reserved flag inside a bitfield carrying the same name as an attribute of the definition"""
    names = set()
    flags = set()

    def walk(d):
        for k, v in d.items():
            if isinstance(v, tuple):
                if v[0] in gen.BITTYPES:
                    flags.update(x for x in v[1] if x[0:8] == "reserved")
                else:
                    walk(v[1])
            else:
                names.add(k)
    walk(ent["defn"])
    return bool(names & flags)


def count_from_flag(ent):
    cs = gen.count_sources(ent["defn"])
    for k, v in ent["defn"].items():
        if isinstance(v, tuple) and v[0] in gen.BITTYPES and cs & set(v[1]):
            return True
    return False


def own_name_clash(ctx_facts, ent):
    return [k for k in ent["defn"] if k in set(ctx_facts.get("ownNames", []))]


FACTS = {}


def classify_c03_mismatch(ent, lay, bf, kw, got):
    nm = f"{defs.MODENAME[ent['mode']]}:{ent['name']}"
    if any(f[0].startswith("_HP") for f in lay.fields):
        return "class=hp-merge-not-invertible"
    d = first_diff_field(ent, lay, got)
    if d is None:
        return f"def={nm};class=length-differs"
    rn, t, sc, off, b, seg = d
    base = base_of(rn)
    if t == "CH":
        try:
            b.decode("utf-8")
        except UnicodeDecodeError:
            return "class=CH-invalid-utf8-not-invertible"
    if sc is not None and sc != 1:
        raw = int.from_bytes(b, "little", signed=(t[0] == "I"))
        rep = round(raw * sc, 12)
        try:
            again = int(rep / sc)
        except Exception:  # noqa
            again = None
        got_raw = int.from_bytes(seg, "little", signed=(t[0] == "I")) if len(seg) == len(b) else None
        if again == got_raw and again != raw:
            small = isinstance(sc, float) and (sc < 2 ** -39 or (rep == 0 and raw != 0))
            return "site=round(val*ares,12);class=scale-below-rounding" if small else "site=int(val/ares);class=scaled-truncation"
    return f"def={nm};field={base};class=payload-differs"


def classify_c03_refusal(ent, lay, bf, kw, a):
    nm = f"{defs.MODENAME[ent['mode']]}:{ent['name']}"
    if own_name_clash(FACTS, ent):
        return f"def={nm};class=unparseable"
    if any(f[0].startswith("_HP") for f in lay.fields):
        return "class=hp-merge-not-invertible"
    if bf == 0 and count_from_flag(ent):
        return f"def={nm};bf=0;class=unparseable"
    c = scaled_culprit(lay)
    if c is not None:
        return "site=round(val*ares,12);class=scale-below-rounding" if c[1] == "scale-below-rounding" else "site=int(val/ares);class=scaled-truncation"
    if reserved_shadow(ent):
        return f"def={nm};class=reserved-flag-shadows-attribute"
    return f"def={nm};class=parsed-values-refused"


def classify_c03_field(ent, k, v, back):
    nm = f"{defs.MODENAME[ent['mode']]}:{ent['name']}"
    sf = scaled_fields(ent["defn"])
    b = base_of(k)
    if any(x.startswith("_HP") for x in sf):
        return "class=hp-merge-not-invertible"
    if b in sf and isinstance(v, (int, float)):
        t, sc = sf[b]
        try:
            if round(int(v / sc) * sc, 12) == back:
                if isinstance(sc, float) and (sc < 2 ** -39 or back == 0):
                    return "site=round(val*ares,12);class=scale-below-rounding"
                return "site=int(val/ares);class=scaled-truncation"
        except Exception:  # noqa
            pass
    return f"def={nm};field={b};class=value-not-preserved"


CHECKS["C03"] = check_C03


# ----------------------------------------------------------------------------- C04

def wf_frame(f):
    """independent well-formedness test of a UBX frame"""
    if len(f) < 8 or f[0:2] != b"\xb5\x62":
        return False
    ln = int.from_bytes(f[4:6], "little")
    if len(f) != ln + 8:
        return False
    a = b = 0
    for x in f[2:-2]:
        a = (a + x) % 256
        b = (b + a) % 256
    return f[-2:] == bytes((a, b))


def check_C04(ctx):
    res = Result()
    rng = ctx.rng
    lines, meta = [], []
    n2i = defs.name2ids()
    for ent, lay, fr in gen_frames(ctx, ctx.n(2, 12)):
        # route: payload bytes
        lines.append(f"construct {ent['cls'].hex()} {ent['id'].hex()} {ent['mode']} 1 P {canon.hx(lay.payload)}")
        meta.append(("payload", ent, None))
        # route: keywords
        if kw_constructible(ent) and not has_var_group(ent["defn"]) and lay.attrs[1]:
            lines.append(f"construct {ent['cls'].hex()} {ent['id'].hex()} {ent['mode']} 1 A " + " ".join(kw_tokens(lay.attrs[1], lay.names)))
            meta.append(("keywords", ent, None))
        lines.append(f"construct {ent['cls'].hex()} {ent['id'].hex()} {ent['mode']} 1 E")
        meta.append(("empty", ent, None))
    # arbitrary payload bytes for arbitrary ids
    for c, i in undocumented_ids(rng, ctx.n(30, 300)):
        p = bytes(rng.getrandbits(8) for _ in range(rng.choice([0, 1, 9, 100])))
        lines.append(f"construct {c.hex()} {i.hex()} 0 1 P {canon.hx(p)}")
        meta.append(("payload", dict(mode=0, cls=c, id=i, name="undoc"), None))
    for mode, c, i, pl in strata_frames(ctx):
        lines.append(f"construct {c.hex()} {i.hex()} {mode} 1 P {canon.hx(pl)}" if pl else f"construct {c.hex()} {i.hex()} {mode} 1 E")
        meta.append(("payload", dict(mode=mode, cls=c, id=i, name=f"strata-{c.hex()}{i.hex()}-len{len(pl)}"), None))
    # payloads the 16-bit length field cannot describe: construction must be refused (or the frame be well-formed)
    for L in (65536, 65537, 65541, 65536 + 256, 131072):
        for mode, c, i in ((0, b"\x77", b"\x05"), (0, b"\x04", b"\x02")):
            pl = bytes(rng.choice(b"ab \x00\x01") for _ in range(L))
            lines.append(f"construct {c.hex()} {i.hex()} {mode} 1 P {canon.hx(pl)}")
            meta.append(("payload", dict(mode=mode, cls=c, id=i, name=f"oversize-{c.hex()}{i.hex()}-len{L}"), None))
    # variable-length text given as bytes, valid UTF-8 or not (the constructor copies bytes as they are)
    for ent in [e for e in ctx.reach if list(e["defn"].values()) == ["CH"]]:
        k = next(iter(ent["defn"]))
        for v in (b"plain", b"temp 23\xb0C", b"\xb5\x62\x00\xff", b"\xe2\x82", bytes(rng.getrandbits(8) for _ in range(9))):
            lines.append(f"construct {ent['cls'].hex()} {ent['id'].hex()} {ent['mode']} 1 A {k}={canon.valstr(v)}")
            meta.append(("keywords", ent, None))
    # config helpers
    names = list(ubc.UBX_CONFIG_DATABASE)
    for _ in range(ctx.n(150, 1500)):
        k = rng.choice([0, 1, 2, 5, 64])
        items = []
        for name in rng.sample(names, k):
            kid, ty = ubc.UBX_CONFIG_DATABASE[name]
            key = name if rng.random() < 0.5 else f"#{kid}"
            items.append((key, gen.cfg_value(rng, ty)))
        lay_, txn = rng.choice([1, 2, 4, 7]), rng.choice([0, 1, 2, 3])
        lines.append(f"cfgset {lay_} {txn} " + " ".join(f"{k}={canon.valstr(v)}" for k, v in items))
        meta.append(("cfgset", dict(mode=1, cls=b"\x06", id=b"\x8a", name="CFG-VALSET"), None))
        lines.append(f"cfgdel {rng.choice([2, 4, 6])} {txn} " + " ".join(k for k, _ in items))
        meta.append(("cfgdel", dict(mode=1, cls=b"\x06", id=b"\x8c", name="CFG-VALDEL"), None))
        lines.append(f"cfgpoll {rng.choice([0, 1, 2, 7])} {rng.choice([0, 1, 64, 65535])} " + " ".join(k for k, _ in items))
        meta.append(("cfgpoll", dict(mode=2, cls=b"\x06", id=b"\x8b", name="CFG-VALGET"), None))
    py = do_corr(res, lines)
    samples = []
    for (route, ent, _), a, l in zip(meta, py, lines):
        nm = f"{defs.MODENAME[ent['mode']]}:{ent['name']}"
        if not a.startswith("ok "):
            res.hist[f"{route}:refused"] += 1
            continue
        res.distinct((route, nm))
        res.hist[f"{route}:built"] += 1
        f = bytes.fromhex(field(a, "ser"))
        pl = field(a, "payload")
        pl = b"" if pl in ("None", "-") else bytes.fromhex(pl)
        if not wf_frame(f) or f[2:3] != ent["cls"] or f[3:4] != ent["id"] or f[6:-2] != pl:
            res.finding(f"def={nm};route={route};class=not-well-formed", "serialize() is not a well-formed frame around the payload", dict(op=l[:2000], ser=f.hex()))
            continue
        # accepted by parse in the same mode (with the bitfield view it was built with)
        try:
            m2 = UBXReader.parse(f, msgmode=ent["mode"], validate=1)
            if m2.serialize() != f:
                res.finding(f"def={nm};route={route};class=reparse-differs", "re-parsed message serializes differently", dict(op=l[:2000]))
        except Exception as e:  # noqa
            if route == "empty" and ent["mode"] != 0 and ent["name"] != "undoc":
                # a message built without payload for a SET/POLL definition that requires one: parse has no definition problem either
                pass
            key = f"def={nm};route={route};class=own-output-rejected"
            if own_name_clash(ctx.facts, ent) if "defn" in ent else False:
                key = f"def={nm};class=unparseable"
            res.finding(key, f"serialize() output is rejected by parse in the same mode: {canon.excname(e)}", dict(op=l[:2000], ser=f.hex()))
        if len(samples) < 4:
            samples.append(l[:120])
    # addressing forms: names, ints, bytes give identical frames
    alines, ameta = [], []
    for ent in ctx.reach:
        base = defs.VARIANT_PINS.get((ent["mode"], ent["name"]), (ent["name"], None))[0]
        key = n2i.get(base)
        if key is None or len(key) != 2:
            continue
        clsname = UBX_CLASSES.get(key[0:1])
        if clsname is None:
            continue
        alines.append(f"addr str {clsname} {base}")
        ameta.append((ent, key))
        alines.append(f"addr int {key[0]} {key[1]}")
        ameta.append((ent, key))
    for c, i in [(-1, 0), (256, 1), (6, 256), (0, 0), (255, 255)]:
        alines.append(f"addr int {c} {i}")
        ameta.append((None, None))
    alines.append("addr str XXX XXX-YYY")
    ameta.append((None, None))
    apy = do_corr(res, alines)
    for (ent, key), a, l in zip(ameta, apy, alines):
        if ent is None:
            continue
        exp = f"ok {key[0:1].hex()} {key[1:2].hex()}"
        res.distinct(("addr", l))
        if a != exp:
            res.finding(f"addr={l};class=forms-disagree", f"addressing form resolves to {a}, bytes form is {exp}", dict(op=l))
    # end-to-end on the real constructor for a sample (the three forms give identical frames)
    for ent in rng.sample(ctx.reach, min(len(ctx.reach), ctx.n(60, 400))):
        base = defs.VARIANT_PINS.get((ent["mode"], ent["name"]), (ent["name"], None))[0]
        key = n2i.get(base)
        if key is None or len(key) != 2 or key[0:1] not in UBX_CLASSES:
            continue
        lay = gen.layout(rng, ent)
        if lay is None:
            continue
        outs = []
        for form in ((UBX_CLASSES[key[0:1]], base), (key[0], key[1]), (key[0:1], key[1:2])):
            try:
                outs.append(UBXMessage(form[0], form[1], ent["mode"], payload=lay.payload).serialize())
            except Exception as e:  # noqa
                outs.append(canon.excname(e))
        res.count(3)
        if len(set(map(str, outs))) != 1:
            res.finding(f"def={defs.MODENAME[ent['mode']]}:{ent['name']};class=forms-disagree", "names / ints / bytes addressing give different results", dict(outs=[str(o)[:80] for o in outs]))
    return res.finish("distinct (construction route, definition) built successfully; routes: payload, keywords, no-payload, config_set/del/poll; plus every id × {names, ints}", samples)


CHECKS["C04"] = check_C04


# ----------------------------------------------------------------------------- C05

def corruptions(rng, f, full):
    out = []
    n = len(f)
    pos = range(n) if full else rng.sample(range(n), min(n, 12))
    for i in pos:
        vals = range(256) if full else [rng.getrandbits(8), f[i] ^ 1, f[i] ^ 0x80, 0, 255]
        for v in vals:
            if v != f[i]:
                out.append(("sub", f[:i] + bytes([v]) + f[i + 1:]))
    for i in (range(n + 1) if full else rng.sample(range(n + 1), min(n + 1, 10))):
        for v in (range(256) if full and n < 20 else [0, f[i - 1] if i else 0xb5, 0xff, rng.getrandbits(8)]):
            out.append(("ins", f[:i] + bytes([v]) + f[i:]))
    for i in (range(n) if full else rng.sample(range(n), min(n, 10))):
        out.append(("del", f[:i] + f[i + 1:]))
    for k in range(n):
        out.append(("trunc", f[:k]))
    for _ in range(6):
        i = rng.randrange(n)
        j = min(n, i + rng.randrange(2, 5))
        out.append(("burst", f[:i] + bytes(rng.getrandbits(8) for _ in range(j - i)) + f[j:]))
    out.append(("append", f + b"\x00"))
    out.append(("append", f + f[-2:]))
    return out


def check_C05(ctx):
    res = Result()
    rng = ctx.rng
    frames = [x for x in gen_frames(ctx, 1)]
    rng.shuffle(frames)
    frames = frames[:ctx.n(60, 400)]
    # always include the zero-length and tiny frames (the repaired defect lived there)
    frames += [(dict(mode=0, name="zero"), None, gen.frame(b"\x06", b"\x01", b"")),
               (dict(mode=0, name="zero-unknown"), None, gen.frame(b"\x00", b"\x00", b"")),
               (dict(mode=0, name="one"), None, gen.frame(b"\x05", b"\x01", b"\x06\x01"))]
    lines, meta = [], []
    for idx, (ent, lay, f) in enumerate(frames):
        full = len(f) <= 12 or (ctx.tier == "thorough" and len(f) <= 40)
        for kind, g in corruptions(rng, f, full):
            lines.append(f"parse {ent['mode']} 1 1 {canon.hx(g)}")
            meta.append((kind, ent, f, g))
        # VALNONE with corrupted checksum parses to the same attributes
        # … whatever the way the mode is given: SETPOLL (3) resolves SET / POLL frames itself
        for md in ([ent["mode"], 3] if ent["mode"] in (1, 2) else [ent["mode"]]):
            e2 = dict(ent, mode=md)
            for ck in (b"\x00\x00", bytes([f[-2] ^ 0xFF, f[-1]]), bytes(rng.getrandbits(8) for _ in range(2))):
                lines.append(f"parse {md} 0 1 {canon.hx(f[:-2] + ck)}")
                meta.append(("valnone", e2, f, f[:-2] + ck))
            lines.append(f"parse {md} 0 1 {canon.hx(f)}")
            meta.append(("valnone-ref", e2, f, f))
    # well-formed frames on length boundaries: must never be rejected with UBXParseError
    for mode, c, i, pl in strata_frames(ctx):
        f = gen.frame(c, i, pl)
        lines.append(f"parse {mode} 1 1 {canon.hx(f)}")
        meta.append(("wf-strata", dict(mode=mode, name="strata"), f, f))
        frames.append((dict(mode=mode, name=f"strata{len(pl)}"), None, f)) if len(pl) in (255, 256, 257, 512, 65280) and c == b"\x77" else None
    # near-valid inputs: exactly one of the three tests (header, length, checksum) should fail, the other two are
    # made consistent with the bytes as the parser reads them (checksum recomputed after the edit)
    def ck_as_parsed(m):
        """last two bytes that make parse()'s checksum test pass for m[:-2] + ck (ck computed over cls+id+lenb+payload)"""
        L = len(m)
        lenb = m[4:6]
        payload = b"" if lenb == b"\x00\x00" else m[6:max(L - 2, 0)] if L - 2 > 6 else b""
        return fletcher_ref(m[2:3] + m[3:4] + lenb + payload)
    for idx, (ent, lay, f) in enumerate(frames[:ctx.n(40, 400)]):
        n = len(f) - 8
        for newlen in {(n + 1) & 0xFFFF, (n - 1) & 0xFFFF, (n + 256) & 0xFFFF, (n ^ 0x8000), n & 0xFF, (n + 65536 - 8) & 0xFFFF, 0, 0xFFFF}:
            if newlen == n:
                continue
            g = bytearray(f)
            g[4:6] = newlen.to_bytes(2, "little")
            g[-2:] = ck_as_parsed(bytes(g))
            lines.append(f"parse {ent['mode']} 1 1 {canon.hx(bytes(g))}")
            meta.append(("len-edit+ck-fixed", ent, f, bytes(g)))
        g = bytearray(f)
        g[0] ^= rng.choice([1, 0x80, 0xFF]); lines.append(f"parse {ent['mode']} 1 1 {canon.hx(bytes(g))}"); meta.append(("hdr-edit", ent, f, bytes(g)))
    # inputs shorter than a frame whose length field aliases the (negative) payload length modulo 2^16 / 2^8, with
    # the "checksum" bytes (which overlap the header fields) made self-consistent
    for L in range(4, 8):
        want = [(L - 8) & 0xFFFF, (L - 8) & 0xFF, 0]
        for lf in want:
            lenb = lf.to_bytes(2, "little")
            found = 0
            for c in range(256):
                for i in range(256):
                    m = (b"\xb5\x62" + bytes([c, i]) + lenb)[:L]
                    if L == 7:
                        m = m + b"\x00"
                    m = bytearray(m)
                    # iterate the overlapping checksum to a fixed point (at most a few rounds)
                    for _ in range(4):
                        ck = ck_as_parsed(bytes(m))
                        if bytes(m[-2:]) == ck:
                            break
                        if L == 7:
                            m[-1:] = ck[1:]
                        else:
                            break
                    if bytes(m[-2:]) == ck_as_parsed(bytes(m)) and bytes(m[4:6]) == lenb[:len(m[4:6])]:
                        lines.append(f"parse 0 1 1 {canon.hx(bytes(m))}")
                        meta.append(("short-aliased", dict(mode=0, name="short"), None, bytes(m)))
                        found += 1
                        if found >= 40:
                            break
                if found >= 40:
                    break
    # insertion of 65536·k bytes that keeps length field (mod 2^16) and checksum consistent
    for n in (0, 1, 5):
        for fill in (b"\x00", None):
            pl = bytes(65536 + n) if fill else bytes(rng.getrandbits(8) for _ in range(65536 + n))
            body = b"\x06\x01" + n.to_bytes(2, "little") + pl
            g = b"\xb5\x62" + body + fletcher_ref(body)
            lines.append(f"parse 0 1 1 {canon.hx(g)}")
            meta.append(("len-alias-65536", dict(mode=0, name="alias"), None, g))
    # all byte strings up to a small length over a frame-relevant alphabet
    alpha = [0xb5, 0x62, 0x00, 0x01, 0x06, 0xff]
    maxlen = ctx.n(5, 7)
    for L in range(0, maxlen + 1):
        for tup in itertools.product(alpha, repeat=L):
            g = bytes(tup)
            lines.append(f"parse 0 1 1 {canon.hx(g)}")
            meta.append(("exhaustive", dict(mode=0, name="alpha"), None, g))
    py = do_corr(res, lines)
    ref = {}
    samples = []
    for (kind, ent, f, g), a, l in zip(meta, py, lines):
        res.hist[kind + (":accepted" if a.startswith("ok ") else ":" + a[4:])] += 1
        if kind == "valnone-ref":
            ref[(f, ent["mode"])] = attrs_of(a) if a.startswith("ok ") else a
            continue
        if kind == "valnone":
            continue
        if kind == "wf-strata" and a == "err UBXParseError":
            res.finding(f"class=well-formed-rejected;len%256={(len(g) - 8) % 256}", "a well-formed frame is rejected with UBXParseError under VALCKSUM", dict(op=l[:200], length=len(g) - 8))
        if a.startswith("ok "):
            res.distinct(g)
            if not wf_frame(g):
                res.finding(f"class=malformed-accepted;len={len(g)};kind={kind}", "parse(validate=VALCKSUM) returned a message for a malformed frame", dict(op=l))
        elif a != "err UBXParseError":
            if wf_frame(g):
                continue   # a well-formed frame may still be refused by the message layer (UBXMessageError/UBXTypeError)
            res.finding(f"class=rejected-with-{a[4:]};kind={kind}", "malformed frame rejected with something other than UBXParseError", dict(op=l))
        if len(samples) < 4 and kind != "exhaustive":
            samples.append(dict(kind=kind, op=l[:90], answer=a[:40]))
    res.coverage["near_valid"] = {k: v for k, v in res.hist.items() if k.split(":")[0] in ("len-edit+ck-fixed", "hdr-edit", "short-aliased", "len-alias-65536")}
    for (kind, ent, f, g), a, l in zip(meta, py, lines):
        if kind == "valnone":
            got = attrs_of(a) if a.startswith("ok ") else a
            if got != ref.get((f, ent["mode"])):
                res.finding("class=valnone-differs", "with VALNONE a corrupted checksum changes the parsed attributes", dict(op=l))
    return res.finish("distinct corrupted inputs accepted by parse (must all be well-formed); every substitution/insertion/deletion/truncation/burst of sample frames + all strings ≤ L over {b5,62,00,01,06,ff}", samples)


CHECKS["C05"] = check_C05


# ----------------------------------------------------------------------------- streams

from pynmeagps import NMEAMessage, NMEAReader
from pyrtcm import RTCMReader
from pyrtcm.rtcmhelpers import calc_crc24q

NOISE_ALPHABET = bytes(b for b in range(256) if b not in (0xb5, 0x24, 0xd3))


def nmea_frame(rng):
    kind = rng.random()
    if kind < 0.03:
        # a sentence far longer than the 82 characters of the standard (a legal GNTXT can be built that long): line
        # assembly must not depend on any length it happens to assume
        body = b"GNTXT,01,01,02," + bytes(rng.choice(b"ABCDEFGHIJKLMNOPQRSTUVWXYZ0123456789 ") for _ in range(rng.choice([1100, 1500, 4200, 9000])))
        ck = 0
        for x in body:
            ck ^= x
        return b"$" + body + b"*" + f"{ck:02X}".encode() + b"\r\n"
    if kind < 0.6:
        m = NMEAMessage("GN", "GLL", 0, lat=53.0 + rng.random(), NS="N", lon=2.0 + rng.random(), EW="W",
                        time="12:00:00", status="A", posMode="A")
        return m.serialize()
    if kind < 0.8:
        m = NMEAMessage("GP", "GGA", 0, time="11:22:33", lat=51.5 + rng.random(), NS="N", lon=0.12, EW="W", quality=1,
                        numSV=rng.randrange(4, 12), HDOP=1.1, alt=56.0, altUnit="M", sep=47.0, sepUnit="M")
        return m.serialize()
    if kind < 0.86:
        # LF-terminated line without a '*' checksum delimiter: pynmeagps returns None without raising
        return b"$GNGLL,5327.04319,N,00214.41396,W\r\n" if rng.random() < 0.5 else b"$PUBX,41\n"
    # proprietary sentence ($P…) with an unknown id: pynmeagps rejects or accepts, either is fine
    body = b"PUBX,00,081350.00,4717.113210,N,00833.915187,E,546.589,G3,2.1,2.0,0.007,77.52,0.007,,0.92,1.19,0.77,9,0,0"
    ck = 0
    for x in body:
        ck ^= x
    return b"$" + body + b"*" + f"{ck:02X}".encode() + b"\r\n"


def rtcm_frame(rng, n=None):
    # sizes on both sides of every bit of the 10-bit length field (the two high bits live in byte 1)
    n = rng.choice([0, 0, 1, 8, 19, 40, 40, 200, 200, 255, 256, 300, 511, 512, 777, 1023]) if n is None else n
    pl = bytes(rng.getrandbits(8) for _ in range(n))
    if n >= 2:
        pl = bytes([0x3e, 0xd0]) + pl[2:]          # message type 1005
    body = b"\xd3" + n.to_bytes(2, "big") + pl
    return body + calc_crc24q(body).to_bytes(3, "big")


def ubx_frame(ctx):
    ent = ctx.rng.choice(ctx.reach)
    lay = gen.layout(ctx.rng, ent)
    return gen.frame(ent["cls"], ent["id"], lay.payload if lay else b"")


def corrupt_keep_boundaries(rng, f, proto):
    """corrupt a frame without changing how the reader delimits it"""
    b = bytearray(f)
    if proto == "ubx":
        i = rng.randrange(6, len(b)) if len(b) > 6 else len(b) - 1
    elif proto == "nmea":
        i = rng.randrange(3, len(b) - 2)
        v = b[i] ^ 1
        if v in (0x0a,):
            v = b[i] ^ 2
        b[i] = v
        return bytes(b)
    else:
        i = rng.randrange(3, len(b))
    b[i] ^= 1 << rng.randrange(8)
    return bytes(b)


def noise(rng, n):
    return bytes(rng.choice(NOISE_ALPHABET) for _ in range(n))


def clean_stream(ctx, nframes=None, corrupt_p=0.0, noise_p=0.3):
    """[(proto, frame bytes, corrupted?)] and the concatenation with optional noise"""
    rng = ctx.rng
    parts, frames = [], []
    for _ in range(nframes if nframes is not None else rng.randrange(1, 8)):
        c = rng.random()
        if c < 0.45:
            p, f = "ubx", ubx_frame(ctx)
        elif c < 0.75:
            p, f = "nmea", nmea_frame(rng)
        else:
            p, f = "rtcm", rtcm_frame(rng)
        bad = False
        if rng.random() < corrupt_p:
            f = corrupt_keep_boundaries(rng, f, p)
            bad = True
        if rng.random() < noise_p:
            parts.append(noise(rng, rng.randrange(1, 6)))
        parts.append(f)
        frames.append((p, f, bad))
    if rng.random() < noise_p:
        parts.append(noise(rng, rng.randrange(1, 4)))
    return frames, b"".join(parts)


def reject_runs(ctx):
    """long runs of consecutive rejected frames (bad-checksum UBX, junk after a sync byte, bad-checksum NMEA) followed by
    good frames: how far the reader gets must not depend on how many frames it has refused in a row"""
    rng = ctx.rng
    good = gen.frame(b"\x05", b"\x01", b"\x06\x01") + b"$GNGLL,5327.04319,N,00214.41396,W,223232.00,A,A*68\r\n"
    bad_ubx = bytearray(gen.frame(b"\x05", b"\x01", b"\x06\x01")); bad_ubx[-1] ^= 0x55
    out = []
    for n in (rng.choice([1100, 1300]), rng.choice([2100, 3300])):
        out.append(bytes(bad_ubx) * n + good)
        out.append(b"\xb5\x00" * n + good)
    out.append(b"$GNGLL,5327.04319,N,00214.41396,W,223232.00,A,A*00\r\n" * 1200 + good)
    return out


def garbage_stream(ctx):
    """arbitrary bytes rich in preamble fragments, plus mutated frames"""
    rng = ctx.rng
    parts = []
    for _ in range(rng.randrange(1, 7)):
        c = rng.random()
        if c < 0.3:
            parts.append(bytes(rng.choice(b"\xb5\x62\x24\x47\x50\x0a\xd3\x00\x01\x02\xff\x06") for _ in range(rng.randrange(1, 12))))
        elif c < 0.5:
            f = ubx_frame(ctx)
            parts.append(f[:rng.randrange(len(f) + 1)])
        elif c < 0.65:
            f = nmea_frame(rng)
            parts.append(f[:rng.randrange(len(f) + 1)])
        elif c < 0.8:
            f = rtcm_frame(rng)
            parts.append(f[rng.randrange(3):])
        else:
            fr, s = clean_stream(ctx, rng.randrange(1, 3), corrupt_p=0.4)
            parts.append(s)
    return b"".join(parts)


def readp_lines(ctx, streams, variants):
    """build readp op lines: variants = list of (src, q, filt, parsing, mode, val, bf) per stream (callable or list)"""
    fl = run_model([f"frames {canon.hx(s)}" for s in streams])
    lines, meta = [], []
    for s, fr in zip(streams, fl):
        vs = variants(s) if callable(variants) else variants
        cache = {}
        for (src, q, filt, parsing, mode, val, bf) in vs:
            key = (mode, val)
            if key not in cache:
                verd = []
                for tok in fr.split():
                    p, h = tok.split(":")
                    if p != "ubx":
                        verd.append(f"{p}:{h}={canon.verdict_for(p, bytes.fromhex(h), mode, val)}")
                cache[key] = " ".join(verd)
            lines.append(f"readp {src} {q} {filt} {parsing} {mode} {val} {bf} {canon.hx(s)} {cache[key]}".rstrip())
            meta.append((s, src, q, filt, parsing, mode, val, bf))
    return lines, meta


def parse_readp(a):
    """answer -> (items [(proto, raw hex, parsed str)], calls [str], raised, crashed)"""
    i = a.index("items=[") + 7
    j = a.index("] calls=[")
    items = []
    body = a[i:j]
    if body:
        # items are separated by spaces outside braces
        depth, cur = 0, ""
        for ch in body:
            if ch == "{":
                depth += 1
            elif ch == "}":
                depth -= 1
            if ch == " " and depth == 0:
                items.append(cur)
                cur = ""
            else:
                cur += ch
        if cur:
            items.append(cur)
    items = [tuple(x.split(":", 2)) for x in items]
    k = a.index("] raised=", j)
    calls = [c for c in a[j + 9:k].split(",") if c]
    raised = a[k + 9:a.index(" crashed=")]
    crashed = a[a.index(" crashed=") + 9:]
    return items, calls, raised, crashed


def rand_chunks(rng, n, maxc=9):
    lens, tot = [], 0
    while tot < n:
        c = rng.randrange(1, maxc)
        lens.append(c)
        tot += c
    return lens


def independent_expect(ctx, frames, mode, val, bf):
    """what the reader must deliver for a clean weave, computed with the protocol parsers only"""
    out = []
    for p, f, bad in frames:
        try:
            if p == "ubx":
                m = UBXReader.parse(f, msgmode=mode, validate=val, parsebitfield=bool(bf))
                out.append(("ubx", f.hex(), "{" + canon.msgdump(m) + "}"))
            elif p == "nmea":
                m = NMEAReader.parse(f, validate=val, msgmode=mode)
                out.append(("nmea", f.hex(), "P" if m is not None else "None"))
            else:
                m = RTCMReader.parse(f, validate=val, labelmsm=1)
                out.append(("rtcm", f.hex(), "P" if m is not None else "None"))
        except Exception:  # noqa  (rejected frame: skipped)
            pass
    return out


# ----------------------------------------------------------------------------- C06

def check_C06(ctx):
    res = Result()
    rng = ctx.rng
    streams, fr_of = [], {}
    for _ in range(ctx.n(1500, 30000)):
        frames, s = clean_stream(ctx, corrupt_p=0.2, noise_p=0.35)
        streams.append(s)
        fr_of[s] = frames
    # every ordered pair of protocols as neighbours, with and without zero-length RTCM3
    for a in ("ubx", "nmea", "rtcm"):
        for b in ("ubx", "nmea", "rtcm"):
            mk = {"ubx": lambda: ubx_frame(ctx), "nmea": lambda: nmea_frame(rng), "rtcm": lambda: rtcm_frame(rng, rng.choice([0, 5]))}
            f1, f2 = mk[a](), mk[b]()
            streams.append(f1 + f2)
            fr_of[f1 + f2] = [(a, f1, False), (b, f2, False)]
    def variants(s):
        mode = rng.choice([0, 0, 1, 2, 3])
        return [("file", rng.choice([0, 1]), 7, 1, mode, rng.choice([0, 1, 1]), rng.choice([0, 1]))]
    lines, meta = readp_lines(ctx, streams, variants)
    py = do_corr(res, lines)
    samples = []
    for (s, src, q, filt, parsing, mode, val, bf), a, l in zip(meta, py, lines):
        items, calls, raised, crashed = parse_readp(a)
        exp = independent_expect(ctx, fr_of[s], mode, val, bf)
        res.distinct(tuple(p for p, f, b in fr_of[s]))
        res.hist[f"frames={len(fr_of[s])}"] += 1
        if crashed != "none" or raised != "none":
            res.finding(f"class=reader-raised-{crashed if crashed != 'none' else raised}", "iteration over a clean weave raised", dict(op=l[:3000]))
        elif [tuple(x) for x in items] != exp:
            n_rtcm0 = sum(1 for p, f, b in fr_of[s] if p == "rtcm" and f[1:3] == b"\x00\x00")
            res.finding(f"class=delivery-differs;zero-rtcm={int(n_rtcm0 > 0)}", "delivered items differ from the frames their protocol parsers accept",
                        dict(op=l[:3000], expected=[x[:2] for x in exp], got=[x[:2] for x in items]))
        if len(samples) < 3:
            samples.append(dict(stream=s.hex()[:120], frames=[p for p, f, b in fr_of[s]], delivered=len(items)))
    return res.finish("distinct protocol sequences of clean weaves (valid + boundary-preserving corrupted frames + noise without b5/24/d3), expected output computed with UBXReader.parse / pynmeagps / pyrtcm only", samples)


CHECKS["C06"] = check_C06


# ----------------------------------------------------------------------------- C07

class TellStream(io.BytesIO):
    pass


def check_C07(ctx):
    res = Result()
    rng = ctx.rng
    streams = []
    alpha = [0xb5, 0x62, 0x24, 0x47, 0x0a, 0xd3, 0x00, 0x01, 0x02, 0xff]
    maxlen = ctx.n(4, 6)
    for L in range(0, maxlen + 1):
        for tup in itertools.product(alpha, repeat=L):
            streams.append(bytes(tup))
    for _ in range(ctx.n(1500, 30000)):
        L = rng.randrange(maxlen + 1, 11)
        streams.append(bytes(rng.choice(alpha) for _ in range(L)))
    for _ in range(ctx.n(300, 5000)):
        streams.append(garbage_stream(ctx))
    streams += reject_runs(ctx)
    # checksum-valid frames of every declared class/id (3-byte ids with the right and with an undefined type byte) carrying
    # arbitrary short payloads, each followed by a frame that must still arrive: whatever the message layer makes of the
    # payload, the bytes after it are not abandoned
    tail = gen.frame(b"\x05", b"\x01", b"\x06\x01")
    keys = list(UBX_MSGIDS)
    for key in (keys if ctx.tier == "thorough" else rng.sample(keys, min(len(keys), 160))):
        for tb in ([key[2:3], bytes([rng.choice([0x7e, 0xee, 0xff])])] if len(key) == 3 else [b""]):
            p = tb + bytes(rng.getrandbits(8) for _ in range(rng.choice([0, 1, 2, 8, 33])))
            streams.append(gen.frame(key[0:1], key[1:2], p) + tail)
    def variants(s):
        return [("file", rng.choice([0, 1]), rng.choice([7, 7, 7, 2, 5, 0]), rng.choice([1, 1, 0]), rng.choice([0, 3]), rng.choice([0, 1]), 1)]
    lines, meta = readp_lines(ctx, streams, variants)
    py = do_corr(res, lines)
    samples = []
    for (s, src, q, filt, parsing, mode, val, bf), a, l in zip(meta, py, lines):
        items, calls, raised, crashed = parse_readp(a)
        res.distinct(s)
        if crashed != "none":
            res.finding(f"class=reader-raised-{crashed}", "iteration raised with errors not raised", dict(op=l[:3000]))
            continue
        pos = 0
        ok = True
        for it in items:
            raw = bytes.fromhex(it[1])
            k = s.find(raw, pos)
            if k < 0 or raw[0] not in (0xb5, 0x24, 0xd3):
                ok = False
                break
            pos = k + len(raw)
        if not ok:
            res.finding("class=items-not-ordered-slices", "raw items are not non-overlapping in-order slices beginning with a preamble", dict(op=l[:3000]))
        res.hist[f"items={min(len(items), 5)}"] += 1
    # nothing left unread: run the real reader and look at the stream position when iteration stops
    sub = streams if len(streams) < 4000 else rng.sample(streams, 4000)
    jobs = [(s, dict(protfilter=rng.choice([7, 7, 2, 0]), parsing=rng.choice([True, True, False]), validate=rng.choice([1, 1, 0]))) for s in sub]
    # … and, first of all, every stream on which model and implementation disagreed, under the configuration of that operation
    difflines = {d["op"] for d in res.diffs}
    for (s, src, q, filt, parsing, mode, val, bf), l in zip(meta, lines):
        if l in difflines:
            jobs.insert(0, (s, dict(protfilter=filt, parsing=bool(parsing), validate=val, msgmode=mode, parsebitfield=bool(bf))))
    # clean weaves ending in frames that follow a frame a protocol parser rejects for its own reasons
    for _ in range(ctx.n(400, 6000)):
        frames, s = clean_stream(ctx, corrupt_p=0.25, noise_p=0.2)
        jobs.append((s, dict(protfilter=rng.choice([7, 7, 4, 5, 3]), parsing=True, validate=rng.choice([1, 0]))))
    for s, kw in jobs:
        st = io.BytesIO(s)
        try:
            for _ in UBXReader(st, quitonerror=0, **kw):
                pass
        except Exception as e:  # noqa
            res.finding(f"class=reader-raised-{canon.excname(e)}", "iteration raised under ERR_IGNORE", dict(stream=s.hex(), config=kw))
            continue
        res.count()
        if st.tell() != len(s):
            res.finding("class=eof-with-data-left", f"iteration stopped at position {st.tell()} of {len(s)}", dict(stream=s.hex(), config=kw))
    samples = [dict(stream=s.hex()) for s in streams[1000:1003]]
    res.coverage["exhaustive"] = False
    return res.finish(f"distinct streams: all strings of length ≤ {maxlen} over 10 frame-relevant bytes (exhaustive part), random longer ones, garbage mixtures", samples)


CHECKS["C07"] = check_C07


# ----------------------------------------------------------------------------- C08

def inspect_ok(m):
    """every inspection the property lists; returns the name of the first exception or None"""
    try:
        str(m); repr(m); m.identity; m.length; m.payload; m.msgmode; m.serialize(); m.msg_cls; m.msg_id
    except Exception as e:  # noqa
        return canon.excname(e)
    return None


def check_C08(ctx):
    res = Result()
    rng = ctx.rng
    lines, meta = [], []
    # checksum-valid frames of every definition at every length 0 … len+2 (quick: strided)
    for ent in ctx.reach:
        lay = gen.layout(rng, ent, maxrep=2)
        base = lay.payload if lay else b""
        base = base[:600]
        full = ctx.tier == "thorough" or len(base) <= 24
        lens = range(len(base) + 3) if full else sorted(set([0, 1, 2, 3, len(base) - 1, len(base), len(base) + 1, len(base) + 2] + rng.sample(range(len(base) + 3), 6)))
        for L in lens:
            if L < 0:
                continue
            p = (base + bytes(rng.getrandbits(8) for _ in range(3)))[:L]
            f = gen.frame(ent["cls"], ent["id"], p)
            mode = ent["mode"] if rng.random() < 0.8 else rng.choice([0, 1, 2, 3])
            lines.append(f"parse {mode} {rng.choice([0, 1])} {rng.choice([0, 1])} {f.hex()}")
            meta.append(("deflen", ent["name"]))
    # random payloads for every class/id in the id table, all modes
    for key in UBX_MSGIDS:
        for mode in (0, 1, 2, 3):
            p = bytes(rng.getrandbits(8) for _ in range(rng.choice([0, 1, 2, 8, 33])))
            if len(key) == 3:
                p = key[2:3] + p
            f = gen.frame(key[0:1], key[1:2], p)
            lines.append(f"parse {mode} 1 {rng.choice([0, 1])} {f.hex()}")
            meta.append(("ids", key.hex()))
    # arbitrary strings, short and long, both validate settings, bad modes
    for _ in range(ctx.n(1500, 30000)):
        L = rng.choice([0, 1, 2, 3, 5, 6, 7, 8, 9, 12, 40])
        g = bytes(rng.choice(b"\xb5\x62\x00\x01\x06\x13\xff\x0a\x31") if rng.random() < 0.7 else rng.getrandbits(8) for _ in range(L))
        lines.append(f"parse {rng.choice([0, 1, 2, 3, 3, 4, 9])} {rng.choice([0, 0, 1])} 1 {canon.hx(g)}")
        meta.append(("arbitrary", L))
    for mode, c, i, pl in strata_frames(ctx):
        f = gen.frame(c, i, pl)
        lines.append(f"parse {mode} {rng.choice([0, 1])} {rng.choice([0, 1])} {f.hex()}")
        meta.append(("strata", len(pl)))
    # messages whose rendering decodes a (class, id) reference carried in the payload: every class byte
    # × every id byte (quick: every id for known classes, a sample of ids for the others)
    from pyubx2.ubxtypes_core import UBX_CLASSES
    for c in range(256):
        cb = bytes([c])
        ids = range(256) if (cb in UBX_CLASSES or ctx.tier == "thorough") else sorted(set(rng.sample(range(256), 6) + [0, 255]))
        for i in ids:
            for (mc, mi, tail) in ((b"\x05", b"\x01", b""), (b"\x05", b"\x00", b""), (b"\x06", b"\x01", rng.choice([b"\x01", bytes(6)]))):
                f = gen.frame(mc, mi, cb + bytes([i]) + tail)
                lines.append(f"parse 0 1 {rng.choice([0, 1])} {f.hex()}")
                meta.append(("clsidref", (mc + mi).hex()))
    # very long inputs (beyond what a length field can express)
    for cls, mid in ((b"\x01", b"\x02"), (b"\x77", b"\x00"), (b"\x06", b"\x01"), (b"\x13", b"\x00")):
        for n in (65535, 65536, 70000):
            body = cls + mid + (n & 0xFFFF).to_bytes(2, "little") + bytes(n)
            f = b"\xb5\x62" + body + uh.calc_checksum(body)
            for val in (0, 1):
                lines.append(f"parse 0 {val} 1 {f.hex()}")
                meta.append(("long", n))
    py = do_corr(res, lines)
    for (kind, x), a, l in zip(meta, py, lines):
        res.hist[kind + ":" + (a[:2] if a.startswith("ok") else a[4:])] += 1
        res.distinct((kind, x, a[:6]))
        if a.startswith("ok "):
            st, rp = field(a, "str"), field(a, "repr")
            if st != "ok" or not rp.startswith("ok:"):
                res.finding(f"class=inspection-raises-{st if st != 'ok' else rp}", "a returned message cannot be inspected without raising", dict(op=l[:400]))
        elif a[4:] not in UBXERRNAMES:
            res.finding(f"class=parse-raises-{a[4:]}", "parse raised something other than a UBX* error", dict(op=l[:400]))
    # direct: full inspection list on the real objects for a sample
    for l in rng.sample(lines, min(len(lines), ctx.n(1500, 20000))):
        t = l.split()
        try:
            m = UBXReader.parse(canon.unhx(t[4]), msgmode=int(t[1]), validate=int(t[2]), parsebitfield=t[3] == "1")
        except UBXERR:
            continue
        except Exception as e:  # noqa
            res.finding(f"class=parse-raises-{canon.excname(e)}", "parse raised something other than a UBX* error", dict(op=l[:400]))
            continue
        res.count()
        e = inspect_ok(m)
        if e:
            res.finding(f"class=inspection-raises-{e}", "a returned message cannot be inspected without raising", dict(op=l[:400]))
    # reader: terminates, never raises under IGNORE/LOG, only protocol errors under RAISE
    streams = [garbage_stream(ctx) for _ in range(ctx.n(300, 5000))]
    # connections and files that end anywhere inside a frame (every protocol), delivered in arbitrary pieces
    for _ in range(ctx.n(150, 2500)):
        cs = clean_stream(ctx, rng.randrange(1, 4), corrupt_p=0.1)[1]
        streams.append(cs[:rng.randrange(len(cs) + 1)])
    streams += reject_runs(ctx)
    def variants(s):
        vs = [("file", q, rng.choice([7, 7, 3, 6, 0]), rng.choice([1, 1, 0]), rng.choice([0, 1, 2, 3]), rng.choice([0, 1]), rng.choice([0, 1])) for q in (0, 1, 2)]
        sock = "sock:" + ",".join(str(rng.choice([1, 2, 3, 5, 8, 13, 40, 200])) for _ in range(rng.randrange(1, 6))) + rng.choice(["", "!"])
        vs.append((sock, rng.choice([0, 1, 2]), rng.choice([7, 7, 3, 6, 0]), rng.choice([1, 1, 0]), rng.choice([0, 1, 2, 3]), rng.choice([0, 1]), rng.choice([0, 1])))
        return vs
    rl, rmeta = readp_lines(ctx, streams, variants)
    rpy = do_corr(res, rl)
    allowed = UBXERRNAMES | set(canon.NCODES) | set(canon.RCODES)
    for (s, src, q, *_), a, l in zip(rmeta, rpy, rl):
        items, calls, raised, crashed = parse_readp(a)
        if crashed == "NonTermination":
            res.finding(f"class=never-terminates;src={src.split(':')[0]}", "iteration does not terminate: the reader keeps asking a finished source for more", dict(op=l[:3000]))
        elif crashed != "none":
            res.finding(f"class=reader-raises-{crashed};q={q}", "reader iteration raised a foreign exception", dict(op=l[:3000]))
        if raised != "none" and (q != 2 or raised not in allowed):
            res.finding(f"class=reader-raises-{raised};q={q}", "reader raised although errors are not to be raised", dict(op=l[:3000]))
    samples = [l[:100] for l in lines[:2]] + [rl[0][:100]]
    return res.finish("distinct (generator, definition/length, outcome): checksum-valid frames of every definition at lengths 0…len+2, every id × 4 modes, arbitrary strings, 65535/65536/70000-byte inputs; reader on garbage × 3 policies", samples)


CHECKS["C08"] = check_C08


# ----------------------------------------------------------------------------- C09

def check_C09(ctx):
    res = Result()
    rng = ctx.rng
    lines, meta = [], []
    streams = []
    for _ in range(ctx.n(150, 2500)):
        if rng.random() < 0.6:
            frames, s = clean_stream(ctx, corrupt_p=0.15)
            streams.append((s, frames))
        else:
            streams.append((garbage_stream(ctx), None))
    for s, frames in streams:
        s = s[:260]
        cfg = (rng.choice([0, 1]), rng.choice([7, 7, 2, 5]), rng.choice([1, 1, 0]), rng.choice([0, 3]), rng.choice([0, 1]), 1)
        cuts = range(len(s) + 1) if len(s) <= 120 or ctx.tier == "thorough" else sorted(set(rng.sample(range(len(s) + 1), 100) + [0, len(s)]))
        for k in cuts:
            streams_k = s[:k]
            meta.append((s, k, cfg, frames))
            lines.append(streams_k)
    # build readp lines grouped per cut stream
    uniq = list(dict.fromkeys(lines))
    fl = dict(zip(uniq, run_model([f"frames {canon.hx(x)}" for x in uniq])))
    ops = []
    for (s, k, cfg, frames), sk in zip(meta, lines):
        q, filt, parsing, mode, val, bf = cfg
        verd = []
        for tok in fl[sk].split():
            p, h = tok.split(":")
            if p != "ubx":
                verd.append(f"{p}:{h}={canon.verdict_for(p, bytes.fromhex(h), mode, val)}")
        ops.append(f"readp file {q} {filt} {parsing} {mode} {val} {bf} {canon.hx(sk)} {' '.join(verd)}".rstrip())
    # the same cut seen through a connection that closes / times out there, delivered in arbitrary pieces
    nfile = len(ops)
    for i in rng.sample(range(nfile), min(nfile, ctx.n(600, 20000))):
        t = ops[i].split(" ", 2)
        sock = "sock:" + ",".join(str(rng.choice([1, 2, 3, 5, 8, 13, 40, 200])) for _ in range(rng.randrange(1, 6))) + rng.choice(["", "!"])
        ops.append(f"readp {sock} {t[2]}")
        meta.append(meta[i])
    py = do_corr(res, ops)
    full = {}
    for (s, k, cfg, frames), a in zip(meta[:nfile], py[:nfile]):
        if k == len(s):
            full[(s, cfg)] = parse_readp(a)
    samples = []
    for (s, k, cfg, frames), a, l in zip(meta, py, ops):
        items, calls, raised, crashed = parse_readp(a)
        fi = full[(s, cfg)][0]
        res.distinct((s, k))
        if crashed == "NonTermination":
            res.finding("class=cut-run-never-terminates", "reading a stream that ends inside a frame does not terminate", dict(op=l[:3000], cut=k))
        elif crashed != "none" or raised != "none":
            res.finding(f"class=cut-run-raised-{crashed if crashed != 'none' else raised}", "reading a cut stream raised", dict(op=l[:3000], cut=k))
        elif items != fi[:len(items)]:
            res.finding("class=not-a-prefix", f"items of S[:{k}] are not a prefix of the items of S", dict(op=l[:3000], cut=k, full=s.hex()))
        elif any(len(bytes.fromhex(it[1])) > k for it in items):
            res.finding("class=partial-frame", "an item longer than the cut was returned", dict(op=l[:3000], cut=k))
        # clean concatenation: every frame wholly before the cut whose parser accepts it is delivered
        if frames is not None and cfg[1] == 7 and s == b"".join(f for _, f, _ in frames):
            pos = 0
            whole = []
            for p, f, bad in frames:
                pos += len(f)
                if pos <= k:
                    whole.append(f.hex())
            delivered = [it[1] for it in items]
            fulldel = [it[1] for it in fi]
            missing = [w for w in whole if w in fulldel and w not in delivered]
            if missing:
                res.finding("class=whole-frame-not-delivered", "a frame lying wholly before the cut was not delivered", dict(op=l[:3000], cut=k))
    samples = [dict(stream=s.hex()[:80], cut=k) for (s, k, cfg, fr) in meta[5:8]]
    return res.finish("distinct (stream, cut position): every cut of clean and garbage streams", samples)


CHECKS["C09"] = check_C09


# ----------------------------------------------------------------------------- C10

def compositions(n):
    """all ordered compositions of n"""
    if n == 0:
        yield []
        return
    for first in range(1, n + 1):
        for rest in compositions(n - first):
            yield [first] + rest


def check_C10(ctx):
    res = Result()
    rng = ctx.rng
    streams, variants_of = [], {}
    # exhaustive segmentations of short streams
    shorts = [gen.frame(b"\x06", b"\x01", b""), b"$GNGLL,A*2D\r\n"[:10], bytes.fromhex("d3000047ea4b"), gen.frame(b"\x05", b"\x01", b"\x06\x01")[:9],
              b"\xb5\x62\x24\x47\x0a\xd3\x00\x00", b"\x24\x47\x41\x0a\xb5\x62\x06\x01\x00\x00\x07\x1b"[:11]]
    maxn = ctx.n(9, 12)
    for s in shorts:
        s = s[:maxn]
        vs = []
        for comp in compositions(len(s)):
            for end in ("", "!"):
                vs.append((f"sock:{','.join(map(str, comp))}{end}", 0, 7, 1, 0, 1, 1))
        vs.append(("file", 0, 7, 1, 0, 1, 1))
        streams.append(s)
        variants_of[s] = vs
    for _ in range(ctx.n(500, 10000)):
        s = clean_stream(ctx, corrupt_p=0.15)[1] if rng.random() < 0.6 else garbage_stream(ctx)
        s = s[:rng.choice([len(s), len(s), rng.randrange(len(s) + 1)])]
        if s in variants_of:
            continue
        cfg = (rng.choice([0, 1, 2]), rng.choice([7, 7, 3, 4]), rng.choice([1, 1, 0]), rng.choice([0, 3]), rng.choice([0, 1]), rng.choice([0, 1]))
        vs = [("file",) + cfg]
        for maxc in (2, 4, 9, 64, 5000):
            lens = rand_chunks(rng, len(s), maxc + 1) if s else [1]
            vs.append((f"sock:{','.join(map(str, lens))}{rng.choice(['', '!'])}",) + cfg)
        streams.append(s)
        variants_of[s] = vs
    # long connections: tens of kilobytes through one wrapper (a buffer that is compacted, an offset that is kept,
    # a counter that wraps would only show after many reads)
    for _ in range(ctx.n(4, 24)):
        s = b""
        want = rng.choice([17000, 24000, 40000, 70000])
        while len(s) < want:
            s += clean_stream(ctx, corrupt_p=0.05)[1]
        cfg = (rng.choice([0, 1]), 7, 1, rng.choice([0, 3]), rng.choice([0, 1]), 1)
        vs = [("file",) + cfg]
        for maxc in (64, 1500, 5000):
            lens = rand_chunks(rng, len(s), maxc + 1)
            vs.append((f"sock:{','.join(map(str, lens))}{rng.choice(['', '!'])}",) + cfg)
        streams.append(s)
        variants_of[s] = vs
    lines, meta = readp_lines(ctx, streams, lambda s: variants_of[s])
    py = do_corr(res, lines)
    ref = {}
    for (s, src, *cfg), a in zip(meta, py):
        if src == "file":
            ref[(s, tuple(cfg))] = a
    samples = []
    for (s, src, *cfg), a, l in zip(meta, py, lines):
        if src == "file":
            continue
        res.distinct((s, src))
        r = ref[(s, tuple(cfg))]
        # compare delivered items (and raised error under ERR_RAISE); handler calls may legitimately differ at the end of a
        # truncated stream: a file reports a short read (UBXStreamError), a socket reports nothing
        if parse_readp(a)[0] != parse_readp(r)[0] or parse_readp(a)[3] != parse_readp(r)[3]:
            res.finding("class=socket-differs-from-file", "items read through a socket differ from items read from a file", dict(op=l[:3000], file=r[:600], sock=a[:600]))
        if len(samples) < 3:
            samples.append(dict(stream=s.hex()[:60], src=src[:60]))
    # SocketWrapper.read / readline directly
    sl = []
    for _ in range(ctx.n(400, 6000)):
        s = bytes(rng.choice(b"ab\n\xb5\x00") for _ in range(rng.randrange(0, 14)))
        lens = rand_chunks(rng, len(s), rng.choice([2, 4, 20])) if s else [1]
        ops_ = ",".join(rng.choice(["0", "1", "2", "3", "5", "L", "L"]) for _ in range(rng.randrange(1, 7)))
        sl.append(f"sockread {','.join(map(str, lens))} {ops_} {canon.hx(s)}")
    spy = do_corr(res, sl)
    for a, l in zip(spy, sl):
        t = l.split()
        data = canon.unhx(t[3])
        pos = 0
        for o, r in zip(t[2].split(","), a.split()):
            if not r.startswith("ok:"):
                break
            d = canon.unhx(r[3:])
            if o == "L":
                exp = data[pos:data.index(b"\n", pos) + 1] if b"\n" in data[pos:] else None
                if exp is None or d != exp:
                    res.finding("class=readline-wrong", "readline() did not return the bytes up to and including the next LF", dict(op=l))
            else:
                if len(d) != int(o) or d != data[pos:pos + int(o)]:
                    res.finding("class=read-wrong", "read(n) returned neither n bytes nor nothing", dict(op=l))
            pos += len(d)
    # real TCP-style delivery from a concurrent sender thread (outside the model; labelled as such)
    import socket as sk
    nreal = ctx.n(12, 150)
    for k in range(nreal):
        s = clean_stream(ctx, corrupt_p=0.1)[1]
        if k % 4 == 3:      # a long connection
            while len(s) < 20000 + 10000 * (k % 5):
                s += clean_stream(ctx, corrupt_p=0.05)[1]
        a, b = sk.socketpair()
        a = canon.GuardSock(a)
        # the stream always ends by the sender closing its side: a time-out ending would make the outcome depend on how
        # quickly the sender thread is scheduled (under load a 0.3 s silence is not the end of the stream), and the
        # time-out ending is exercised deterministically by the fake sockets above
        a.settimeout(60)
        end = "close"
        def sender(sock=b, data=s, end=end):
            pos = 0
            r = random.Random(len(data))
            while pos < len(data):
                n = r.randrange(1, 40) if len(data) < 5000 else r.randrange(1, 1500)
                sock.sendall(data[pos:pos + n])
                pos += n
                if r.random() < 0.2:
                    time.sleep(0.001)
            if end == "close":
                sock.close()
        th = threading.Thread(target=sender)
        th.start()
        try:
            got = [(raw, str(p)) for raw, p in UBXReader(a, quitonerror=0, bufsize=rng.choice([1, 7, 4096]))]
        except canon.NonTermination:
            got = "never-returns"
        except Exception as e:  # noqa
            got = canon.excname(e)
        th.join()
        a.close(); b.close()
        try:
            exp = [(raw, str(p)) for raw, p in UBXReader(io.BytesIO(s), quitonerror=0)]
        except Exception as e:  # noqa
            exp = "file:" + canon.excname(e)
        res.count()
        if got != exp:
            res.finding("class=real-socket-differs-from-file", "items read through a real socket pair differ from items read from a file", dict(stream=s.hex(), end=end))
    res.assumptions = ["real TCP delivery and the sender thread are exercised (socketpair), not modelled",
                       "handler calls at the very end of a truncated stream may differ (file: short read reported; socket: nothing) — the property speaks of (raw, parsed) items"]
    return res.finish("distinct (stream, recv segmentation): all compositions of short streams × {close, timeout}, random compositions of long ones; SocketWrapper.read/readline op sequences; real socketpair runs", samples)


CHECKS["C10"] = check_C10


# ----------------------------------------------------------------------------- C11

def check_C11(ctx):
    res = Result()
    rng = ctx.rng
    streams = [clean_stream(ctx, corrupt_p=0.2)[1] if rng.random() < 0.5 else garbage_stream(ctx) for _ in range(ctx.n(400, 8000))]
    def variants(s):
        mode, val, bf, q = rng.choice([0, 3]), rng.choice([0, 1]), rng.choice([0, 1]), rng.choice([0, 1])
        return [("file", q, F, P, mode, val, bf) for F in range(8) for P in (1, 0)]
    lines, meta = readp_lines(ctx, streams, variants)
    py = do_corr(res, lines)
    table = {}
    for (s, src, q, F, P, mode, val, bf), a in zip(meta, py):
        table[(s, F, P)] = parse_readp(a)
    bit = {"nmea": 1, "ubx": 2, "rtcm": 4}
    for (s, F, P), (items, calls, raised, crashed) in table.items():
        res.distinct((s, F, P))
        if crashed != "none":
            res.finding(f"class=reader-raised-{crashed}", "reader raised", dict(stream=s.hex(), F=F, P=P))
            continue
        allitems = table[(s, 7, P)][0]
        exp = [it for it in allitems if bit.get(it[0], 0) & F]
        if items != exp:
            res.finding("class=filter-changes-framing", f"items with protfilter={F} are not the protfilter=7 items restricted to the mask", dict(stream=s.hex(), F=F, P=P))
        if P == 0:
            if any(it[2] != "None" for it in items):
                res.finding("class=parsing-false-parsed", "parsing=False delivered a parsed value", dict(stream=s.hex(), F=F))
            on = [(it[0], it[1]) for it in table[(s, F, 1)][0]]
            off = [(it[0], it[1]) for it in items]
            # framing unchanged: frames delivered with parsing on are a subsequence of those delivered with parsing off;
            # equal when no frame was rejected
            it_ = iter(off)
            if not all(x in it_ for x in on):
                res.finding("class=parsing-changes-framing", "frames delivered with parsing=True are not among those delivered with parsing=False", dict(stream=s.hex(), F=F))
            if not table[(s, F, 1)][1] and table[(s, F, 1)][2] == "none" and len(on) != len(off) and False:
                pass
        # protocol() agrees with the dispatch that produced the item
        for it in items:
            try:
                pr = uh.protocol(bytes.fromhex(it[1]))
            except Exception as e:  # noqa
                pr = canon.excname(e)
            if pr != bit.get(it[0]):
                res.finding("class=protocol-helper-disagrees", f"protocol() says {pr} for an item dispatched as {it[0]}", dict(raw=it[1]))
    samples = [dict(stream=s.hex()[:80]) for s in streams[:3]]
    return res.finish("distinct (stream, mask, parsing): 8 masks × 2 parsing settings over clean and garbage streams", samples)


CHECKS["C11"] = check_C11


# ----------------------------------------------------------------------------- C12

def check_C12(ctx):
    res = Result()
    rng = ctx.rng
    streams = [clean_stream(ctx, corrupt_p=0.45)[1] if rng.random() < 0.6 else garbage_stream(ctx) for _ in range(ctx.n(800, 15000))]
    streams += reject_runs(ctx)
    def variants(s):
        F, P, mode, val, bf = rng.choice([7, 7, 3, 6]), 1, rng.choice([0, 3]), rng.choice([0, 1, 1]), rng.choice([0, 1])
        return [("file", q, F, P, mode, val, bf) for q in (0, 1, 2)]
    lines, meta = readp_lines(ctx, streams, variants)
    py = do_corr(res, lines)
    table = {}
    for (s, src, q, *_), a in zip(meta, py):
        table[(s, q)] = parse_readp(a)
    for s in dict.fromkeys(streams):
        i0, c0, r0, x0 = table[(s, 0)]
        i1, c1, r1, x1 = table[(s, 1)]
        i2, c2, r2, x2 = table[(s, 2)]
        res.distinct(s)
        res.hist[f"errors={min(len(c1), 4)}"] += 1
        if x0 != "none" or x1 != "none" or x2 != "none":
            res.finding(f"class=reader-raised-{x0 if x0 != 'none' else x1 if x1 != 'none' else x2}", "foreign exception", dict(stream=s.hex()))
            continue
        if i0 != i1:
            res.finding("class=ignore-differs-from-log", "ERR_IGNORE and ERR_LOG deliver different items", dict(stream=s.hex()))
        if c0:
            res.finding("class=handler-called-under-ignore", "error handler called under ERR_IGNORE", dict(stream=s.hex()))
        if r0 != "none" or r1 != "none":
            res.finding("class=raised-under-ignore-or-log", "raised although policy is not ERR_RAISE", dict(stream=s.hex()))
        if c1:
            if r2 != c1[0] or i2 != i1[:len(i2)]:
                res.finding("class=raise-differs", "ERR_RAISE does not deliver the items before the first rejected frame and raise that error", dict(stream=s.hex(), calls=c1, raised=r2))
        else:
            if r2 != "none" or i2 != i1:
                res.finding("class=raise-differs", "ERR_RAISE differs although nothing was rejected", dict(stream=s.hex()))
    # exactly one handler call per rejected frame, none for delivered frames: compare with an independent count on clean weaves
    for _ in range(ctx.n(150, 2500)):
        frames, s = clean_stream(ctx, corrupt_p=0.4, noise_p=0.0)
        mode, val = 0, 1
        exp_items = independent_expect(ctx, frames, mode, val, 1)
        nrej = len(frames) - len(exp_items)
        calls = []
        try:
            got = list(UBXReader(io.BytesIO(s), quitonerror=1, msgmode=mode, validate=val, errorhandler=lambda e: calls.append(e)))
        except Exception as e:  # noqa
            res.finding(f"class=reader-raised-{canon.excname(e)}", "reader raised under ERR_LOG", dict(stream=s.hex()))
            continue
        res.count()
        if len(calls) != nrej or len(got) != len(exp_items):
            res.finding("class=handler-count-wrong", f"{len(calls)} handler calls for {nrej} rejected frames", dict(stream=s.hex()))
    # handler absent: same items / same raised exception; under ERR_LOG the rejection goes to the logger, once each
    import logging

    class Counter(logging.Handler):
        def __init__(self):
            super().__init__()
            self.n = 0

        def emit(self, record):
            self.n += 1
    lg = logging.getLogger("pyubx2.ubxreader")
    for s in rng.sample(list(dict.fromkeys(streams)), min(len(set(streams)), ctx.n(120, 1500))):
        for q in (0, 1, 2):
            ref_items, ref_calls, ref_raised, ref_crash = None, None, None, None
            outs = []
            for handler in (True, False):
                calls = []
                cnt = Counter()
                lg.addHandler(cnt)
                old_prop = lg.propagate
                lg.propagate = False
                raised = "none"
                items = []
                try:
                    rd = UBXReader(io.BytesIO(s), quitonerror=q, errorhandler=(lambda e: calls.append(canon.excname(e))) if handler else None)
                    for raw, parsed in rd:
                        items.append((raw, parsed is None))
                except Exception as e:  # noqa
                    raised = canon.excname(e)
                finally:
                    lg.removeHandler(cnt)
                    lg.propagate = old_prop
                outs.append((items, raised, len(calls) if handler else cnt.n))
            res.count(2)
            (i1, r1, n1), (i2, r2, n2) = outs
            if i1 != i2 or r1 != r2:
                res.finding(f"class=handler-presence-changes-delivery;q={q}", "items / raised exception differ with and without an error handler", dict(stream=s.hex(), q=q, with_handler=[len(i1), r1], without=[len(i2), r2]))
            elif q == 1 and n1 != n2:
                res.finding("class=logger-count-differs", f"{n1} handler calls but {n2} log records", dict(stream=s.hex()))
            elif q != 1 and n2 != 0:
                res.finding(f"class=logged-under-q{q}", "something was logged although the policy is not ERR_LOG", dict(stream=s.hex()))
    samples = [dict(stream=s.hex()[:80]) for s in streams[:3]]
    return res.finish("distinct streams × 3 policies (good/corrupted frames of three protocols, garbage), handler present and absent", samples)


CHECKS["C12"] = check_C12


# ----------------------------------------------------------------------------- C13

class FdCapture:
    """capture everything written to fd 1 and fd 2 (not just sys.stdout) while active"""

    def __enter__(self):
        sys.stdout.flush(); sys.stderr.flush()
        self.tmp = tempfile.TemporaryFile()
        self.saved = (os.dup(1), os.dup(2))
        os.dup2(self.tmp.fileno(), 1)
        os.dup2(self.tmp.fileno(), 2)
        return self

    def __exit__(self, *a):
        sys.stdout.flush(); sys.stderr.flush()
        os.dup2(self.saved[0], 1)
        os.dup2(self.saved[1], 2)
        os.close(self.saved[0]); os.close(self.saved[1])
        self.tmp.seek(0)
        self.data = self.tmp.read()
        self.tmp.close()


def deep_digest():
    """digest of every shared definition / configuration table"""
    import pyubx2.ubxtypes_core as c, pyubx2.ubxtypes_get as g, pyubx2.ubxtypes_set as s_, pyubx2.ubxtypes_poll as p, pyubx2.ubxvariants as v
    h = hashlib.sha256()
    for obj in (g.UBX_PAYLOADS_GET, s_.UBX_PAYLOADS_SET, p.UBX_PAYLOADS_POLL, c.UBX_MSGIDS, c.UBX_CLASSES, c.ATTTYPE,
                ubc.UBX_CONFIG_DATABASE, ubc.UBX_CONFIG_STORSIZE, {k: {kk: vv.__name__ for kk, vv in d.items()} for k, d in v.VARIANTS.items()}):
        h.update(repr(obj).encode())
    return h.hexdigest()


def shared_tables():
    import pyubx2.ubxtypes_core as c, pyubx2.ubxtypes_get as g, pyubx2.ubxtypes_set as s_, pyubx2.ubxtypes_poll as p, pyubx2.ubxvariants as v
    objs = [g.UBX_PAYLOADS_GET, s_.UBX_PAYLOADS_SET, p.UBX_PAYLOADS_POLL, c.UBX_MSGIDS, c.UBX_CLASSES, c.ATTTYPE,
            ubc.UBX_CONFIG_DATABASE, ubc.UBX_CONFIG_STORSIZE, v.VARIANTS] + list(v.VARIANTS.values())
    return objs


def static_global_writes():
    """AST scan of the control modules for code that would break the property where it runs: a store into (or a mutating
    method call on, or a rebinding of) one of the *shared definition / configuration tables* from inside a function, and
    `print`. A store into any other module-level object (a private memo cache of a pure function, a counter) is not a
    finding: it cannot change the tables, and whether it changes results is what the history / concurrency probes decide."""
    import ast
    import pyubx2.ubxmessage as um, pyubx2.ubxhelpers as uh_, pyubx2.ubxvariants as uv, pyubx2.ubxreader as ur, pyubx2.socket_wrapper as sw
    hits = []
    tables = shared_tables()
    MUT = {"append", "extend", "insert", "pop", "remove", "clear", "update", "setdefault", "popitem", "sort", "reverse", "add", "discard", "__setitem__"}

    def is_shared(mod, e):
        """does some prefix `name`, `name.attr`, … of the target expression denote a shared table (by identity)?"""
        chain = []
        while isinstance(e, (ast.Subscript, ast.Attribute)):
            chain.append(e)
            e = e.value
        if not isinstance(e, ast.Name) or not hasattr(mod, e.id):
            return None
        obj = getattr(mod, e.id)
        name = e.id
        if any(obj is t for t in tables):
            return name
        for node in reversed(chain):
            if isinstance(node, ast.Attribute) and hasattr(obj, node.attr):
                obj = getattr(obj, node.attr)
                name += "." + node.attr
                if any(obj is t for t in tables):
                    return name
            else:
                break
        return None

    for mod in (um, uh_, uv, ur, sw):
        src = open(mod.__file__, newline="").read().replace("\r\n", "\n")
        tree = ast.parse(src)
        for fn in ast.walk(tree):
            if not isinstance(fn, (ast.FunctionDef, ast.AsyncFunctionDef)):
                continue
            local = {a.arg for a in fn.args.args + fn.args.kwonlyargs} | ({fn.args.vararg.arg} if fn.args.vararg else set()) | ({fn.args.kwarg.arg} if fn.args.kwarg else set())
            globs = set()
            for n in ast.walk(fn):
                if isinstance(n, ast.Global):
                    globs |= set(n.names)
            for n in ast.walk(fn):
                if isinstance(n, ast.Assign):
                    for t in n.targets:
                        for x in ast.walk(t):
                            if isinstance(x, ast.Name) and isinstance(x.ctx, ast.Store) and x.id not in globs:
                                local.add(x.id)
                elif isinstance(n, (ast.For, ast.comprehension)):
                    for x in ast.walk(n.target):
                        if isinstance(x, ast.Name):
                            local.add(x.id)
                elif isinstance(n, ast.With):
                    for it in n.items:
                        if it.optional_vars is not None:
                            for x in ast.walk(it.optional_vars):
                                if isinstance(x, ast.Name):
                                    local.add(x.id)

            def rootname(e):
                while isinstance(e, (ast.Subscript, ast.Attribute)):
                    e = e.value
                return e.id if isinstance(e, ast.Name) else None
            for n in ast.walk(fn):
                if isinstance(n, ast.Global):
                    for g_ in n.names:
                        if hasattr(mod, g_) and any(getattr(mod, g_) is t for t in tables):
                            hits.append(f"{mod.__name__}.{fn.name}: global {g_} (a shared table is rebound)")
                if isinstance(n, (ast.Assign, ast.AugAssign, ast.Delete)):
                    tg = n.targets if isinstance(n, (ast.Assign, ast.Delete)) else [n.target]
                    for t in tg:
                        if isinstance(t, (ast.Subscript, ast.Attribute)) and rootname(t) not in local:
                            sh = is_shared(mod, t.value)
                            if sh:
                                hits.append(f"{mod.__name__}.{fn.name}:{n.lineno}: store into shared table {sh}")
                if isinstance(n, ast.Call) and isinstance(n.func, ast.Attribute) and n.func.attr in MUT and rootname(n.func.value) not in local:
                    sh = is_shared(mod, n.func.value)
                    if sh:
                        hits.append(f"{mod.__name__}.{fn.name}:{n.lineno}: {sh}.{n.func.attr}(…)")
                if isinstance(n, ast.Call) and isinstance(n.func, ast.Name) and n.func.id == "print":
                    hits.append(f"{mod.__name__}.{fn.name}:{n.lineno}: print(…)")
    return hits


def check_C13(ctx):
    res = Result()
    rng = ctx.rng
    # (1) immutability: correspondence op + direct probing of every attribute name
    frames = gen_frames(ctx, 1)
    rng.shuffle(frames)
    lines = []
    for ent, lay, f in frames[:ctx.n(150, 490)]:
        lines.append(f"setattr {ent['mode']} 1 {rng.choice([0, 1])} {f.hex()}")
    py = do_corr(res, lines)
    for a, l in zip(py, lines):
        if a.startswith("err"):
            continue
        res.distinct(("immut", l[:40]))
        if not a.startswith("refused UBXMessageError UBXMessageError ser="):
            res.finding(f"class=mutation-{a.split()[0]}-{' '.join(a.split()[1:3])}", "assigning or deleting an attribute did not raise UBXMessageError / changed the message", dict(op=l[:400], answer=a[:200]))
    # constructed (not parsed) messages too
    for ent, lay, f in frames[:ctx.n(80, 490)]:
        try:
            m = UBXMessage(ent["cls"], ent["id"], ent["mode"], payload=lay.payload)
        except UBXERR:
            continue
        before = m.serialize()
        for nme in list(m.__dict__) + ["brandnew", "_payload", "_immutable", "_mode", "payload", "length", "identity"]:
            for act in ("set", "del"):
                try:
                    setattr(m, nme, 0) if act == "set" else delattr(m, nme)
                    res.finding(f"class=mutation-accepted-{act}", f"{act} of attribute {nme} accepted", dict(msg=repr(m)[:200], name=nme))
                except UBXMessageError:
                    pass
                except Exception as e:  # noqa
                    res.finding(f"class=mutation-raises-{canon.excname(e)}", f"{act} of attribute {nme} raised {canon.excname(e)}", dict(msg=repr(m)[:200], name=nme))
                res.count()
        if m.serialize() != before:
            res.finding("class=serialization-changed", "serialization changed after refused mutations", dict(msg=repr(m)[:200]))
    # (2) no output, tables untouched, history independence
    probe_lines = []
    for ent, lay, f in frames[:ctx.n(120, 490)]:
        probe_lines.append(f"parse {ent['mode']} 1 1 {f.hex()}")
        if kw_constructible(ent) and not has_var_group(ent["defn"]) and lay.attrs[1]:
            probe_lines.append(f"construct {ent['cls'].hex()} {ent['id'].hex()} {ent['mode']} 1 A " + " ".join(kw_tokens(lay.attrs[1], lay.names)))
    # the same class/id seen in both of its input modes under SETPOLL (a per-type memo of the resolved mode would make the
    # second answer depend on the first), and the same frame under every explicit mode
    by_id = {}
    for ent, lay, f in frames:
        if ent["mode"] in (SET, POLL):
            by_id.setdefault((ent["cls"], ent["id"]), {})[ent["mode"]] = f
    both = [v for v in by_id.values() if len(v) == 2][:ctx.n(25, 200)]
    for v in both:
        for mode_ in (POLL, SET):
            probe_lines.append(f"parse 3 1 1 {v[mode_].hex()}")
            probe_lines.append(f"parse 3 1 0 {v[mode_].hex()}")
    probe_lines += [f"construct 06 31 2 1 A tpIdx=i1", "construct 06 31 2 1 P 01", "construct 06 31 2 1 E",
                    "cfgset 1 0 CFG_NMEA_PROTVER=i41", "cfgpoll 0 0 CFG_UART1_BAUDRATE", "cfgdel 2 0 #545259521"]
    d0 = deep_digest()
    with FdCapture() as cap:
        first = corr.run_python(probe_lines)
    if cap.data:
        # find which operation writes
        culprit = None
        for l in probe_lines:
            with FdCapture() as c1:
                corr.run_python([l])
            if c1.data:
                culprit = l
                break
        res.finding("class=writes-to-stdout-or-stderr", f"parsing/constructing wrote {cap.data[:80]!r}", dict(op=(culprit or "")[:400]))
    model = [canon.canon_readp_model(canon.canon_model_line(x)) for x in run_model(probe_lines)]
    res.count(len(probe_lines))
    suspects = []
    for l, a, b in zip(probe_lines, first, model):
        if a != b and a.count("=") <= corr.MAX_ATTRS:
            res.diffs.append(dict(op=l, py=a, model=b))
            suspects.append((l, a))
    # an answer that differs from the history-free model answer may be a memo / shared state at work: ask a fresh
    # interpreter (nothing processed before) for the same input — if it answers differently, that is the failing history
    import subprocess
    for l, a in suspects[:8]:
        try:
            pr = subprocess.run([sys.executable, "-c", "import sys; from vh import canon; print(canon.handle(sys.argv[1]))", l],
                                capture_output=True, text=True, timeout=120, env=dict(os.environ))
            fresh = pr.stdout.strip().splitlines()[-1] if pr.stdout.strip() else None
        except Exception:  # noqa
            fresh = None
        res.count()
        if fresh is not None and pr.returncode == 0 and fresh != a:
            res.finding("class=history-dependent", "the result for an input differs from what a fresh interpreter gives for it: it depends on what was processed before",
                        dict(op=l[:400], fresh=fresh[:200], after_history=a[:200], history=[x[:200] for x in probe_lines[:probe_lines.index(l)][-6:]]))
    # unrelated work in between: other messages, errors, streams, config helpers
    with FdCapture() as cap2:
        corr.run_python([f"parse {rng.choice([0, 1, 2, 3])} {rng.choice([0, 1])} 1 {canon.hx(garbage_stream(ctx)[:60])}" for _ in range(300)])
        for ent, lay, f in frames[-60:]:
            try:
                UBXMessage(ent["cls"], ent["id"], ent["mode"], payload=lay.payload[:-1] if lay.payload else b"\x00")
            except Exception:  # noqa
                pass
        # a caller may do what it likes with the values a message hands out: list-valued attributes (array types) of
        # messages built from defaults or parsed from bytes are changed in place — later messages must not care
        for cls_, id_, mode_, kw_ in ((b"\x0a", b"\x31", 0, dict(numRfBlocks=1)), (b"\x02", b"\x73", 0, {})):
            try:
                mm = UBXMessage(cls_, id_, mode_, **kw_)
                for k_, v_ in list(mm.__dict__.items()):
                    if isinstance(v_, list) and v_:
                        v_[0] = 201
                        v_.append(7)
            except Exception:  # noqa
                pass
        second = corr.run_python(list(reversed(probe_lines)))[::-1]
    probe_extra = ["construct 0a 31 0 1 A numRfBlocks=i1", "construct 02 73 0 1 E", "nomval A256", "nomval A250", "nomval A005"]
    ex1 = [canon.canon_readp_model(canon.canon_model_line(x)) for x in run_model(probe_extra)]
    ex2 = corr.run_python(probe_extra)
    for l, a, b in zip(probe_extra, ex2, ex1):
        if a != b:
            res.finding("class=history-dependent", "a default-built message / nominal value changed after a caller modified an earlier one in place", dict(op=l, now=a[:200], fresh=b[:200]))
    if cap2.data:
        res.finding("class=writes-to-stdout-or-stderr", f"parsing/constructing wrote {cap2.data[:80]!r}", dict(op="(history run)"))
    res.count(len(probe_lines))
    for l, a, b in zip(probe_lines, first, second):
        if a != b:
            res.finding("class=history-dependent", "the result for an input changed after other inputs were processed", dict(op=l[:400], first=a[:200], later=b[:200]))
    # concurrently from worker threads
    nthreads = 8
    outs = [None] * nthreads
    def worker(i):
        r = random.Random(i)
        mine = probe_lines[:]
        r.shuffle(mine)
        got = dict(zip(mine, corr.run_python(mine)))
        outs[i] = [got[l] for l in probe_lines]
    old_si = sys.getswitchinterval()
    sys.setswitchinterval(1e-6)
    try:
        with FdCapture() as cap3:
            ths = [threading.Thread(target=worker, args=(i,)) for i in range(nthreads)]
            [t.start() for t in ths]
            [t.join() for t in ths]
    finally:
        sys.setswitchinterval(old_si)
    res.count(len(probe_lines) * nthreads)
    if cap3.data:
        res.finding("class=writes-to-stdout-or-stderr", f"concurrent run wrote {cap3.data[:80]!r}", dict(op="(threads)"))
    for i in range(nthreads):
        for l, a, b in zip(probe_lines, first, outs[i] or []):
            if a != b:
                res.finding("class=schedule-dependent", "the result for an input differs when computed concurrently", dict(op=l[:400], first=a[:200], thread=b[:200]))
                break
    if deep_digest() != d0:
        res.finding("class=tables-mutated", "shared definition / configuration tables changed", None)
    for h in static_global_writes():
        res.finding(f"class=static-global-write;{h.split(':')[0]}", f"static scan: {h}", dict(site=h))
    res.distinct(("probes", len(probe_lines)))
    res.assumptions = ["thread interleavings are exercised (8 threads, 1 µs switch interval), not proved",
                       "UBXReader.read() under ERR_LOG writes rejected frames to the logging module by design and is outside the capture"]
    return res.finish("probe set (parse + construct of every definition, config helpers) evaluated first, after unrelated work, reversed, and from 8 threads; fd-level capture of stdout/stderr; table digest; static scan for global writes / print", [l[:100] for l in probe_lines[:3]])


CHECKS["C13"] = check_C13


# ----------------------------------------------------------------------------- C14

def source_dup_keys(basenames):
    """duplicate constant keys inside one dict literal of the shipped table sources: Python keeps the first position
    and the last value, so the table object the library loads silently differs from the definition as written
    (a field, a message or a key is lost). Returns [(file, line, key, first_line)]."""
    import ast
    out = []
    src = os.path.dirname(pyubx2.__file__)
    for bn in basenames:
        fn = os.path.join(src, bn)
        try:
            tree = ast.parse(open(fn, encoding="utf-8").read())
        except (OSError, SyntaxError):
            continue
        for node in ast.walk(tree):
            if not isinstance(node, ast.Dict):
                continue
            seen = {}
            for k in node.keys:
                if isinstance(k, ast.Constant):
                    kk = ("c", k.value)
                elif isinstance(k, ast.Name):
                    kk = ("n", k.id)
                else:
                    continue
                if kk in seen:
                    out.append((bn, k.lineno, repr(kk[1]), seen[kk]))
                else:
                    seen[kk] = k.lineno
    return out


def check_C14(ctx):
    res = Result()
    for bn, line, key, first in source_dup_keys(["ubxtypes_configdb.py"]):
        res.finding(f"dupkey={bn}:{key}", f"{bn}:{line}: key {key} is written twice in one dict literal (first at line {first}); "
                    "the loaded table keeps one entry, so a configuration key as shipped is lost",
                    dict(file=bn, line=line, key=key, first_line=first))
    rng = ctx.rng
    db = ubc.UBX_CONFIG_DATABASE
    lines, meta = [], []
    # every key, both addressing forms, boundary + random values
    names = list(db)
    if ctx.tier != "thorough":
        pass
    for name in names:
        kid, ty = db[name]
        for form in (name, f"#{kid}"):
            v = gen.cfg_value(rng, ty)
            lay_, txn = rng.choice([1, 2, 4, 7]), rng.choice([0, 1, 2, 3])
            lines.append(f"cfgset {lay_} {txn} {form}={canon.valstr(v)}")
            meta.append(("set", lay_, txn, [(name, kid, ty, v)]))
        lines.append(f"cfgname {name}")
        meta.append(("name", name, kid, ty))
        lines.append(f"cfgkey {kid}")
        meta.append(("key", name, kid, ty))
    # lists of 0..64 and >64, mixed forms, unknown ids, headers
    for _ in range(ctx.n(200, 3000)):
        k = rng.choice([0, 1, 2, 3, 10, 63, 64, 65, 70])
        items = []
        used = set()
        for _i in range(k):
            if rng.random() < 0.15:
                kid = gen.unknown_key(rng)
                ty = "X%03d" % ubc.UBX_CONFIG_STORSIZE[kid >> 28]
                name = "CFG_" + hex(kid)
                form = f"#{kid}"
            else:
                name = rng.choice(names)
                kid, ty = db[name]
                form = name if rng.random() < 0.5 else f"#{kid}"
            used.add(kid)
            items.append((form, name, kid, ty, gen.cfg_value(rng, ty)))
            # the same key again (other form, other value): a list is a list — every item is emitted, in order
            if rng.random() < 0.12 and len(items) < k:
                form2 = name if form.startswith("#") and name in db else f"#{kid}"
                items.append((form2, name, kid, ty, gen.cfg_value(rng, ty)))
        lay_, txn, pos = rng.choice([0, 1, 2, 4, 7, 255]), rng.choice([0, 1, 2, 3, 255]), rng.choice([0, 1, 64, 65535])
        lines.append(f"cfgset {lay_} {txn} " + " ".join(f"{f}={canon.valstr(v)}" for f, n, k_, t, v in items))
        meta.append(("set", lay_, txn, [(n, k_, t, v) for f, n, k_, t, v in items]))
        lines.append(f"cfgdel {lay_} {txn} " + " ".join(f for f, *_ in items))
        meta.append(("del", lay_, txn, [(n, k_, t, None) for f, n, k_, t, v in items]))
        lines.append(f"cfgpoll {lay_} {pos} " + " ".join(f for f, *_ in items))
        meta.append(("poll", lay_, pos, [(n, k_, t, None) for f, n, k_, t, v in items]))
    # unknown ids with every size code, and invalid ones
    for code in range(0, 16):
        for _ in range(3):
            kid = (code << 28) | rng.getrandbits(28)
            lines.append(f"cfgkey {kid}")
            meta.append(("ukey", kid))
    # ids one bit away from a documented key (every bit position): still undocumented, still named CFG_0x…
    known_ids = set(k_ for k_, t_ in db.values())
    base_keys = rng.sample(sorted(known_ids), ctx.n(40, 400))
    for kid0 in base_keys:
        for bit in range(32):
            kid = kid0 ^ (1 << bit)
            if kid not in known_ids:
                lines.append(f"cfgkey {kid}")
                meta.append(("ukey", kid))
    for nme in ("CFG_NOT_A_KEY", "cfg_nmea_protver", "X"):
        lines.append(f"cfgname {nme}")
        meta.append(("uname", nme))
    # parsing CFG-VALSET / CFG-VALGET payloads holding arbitrary key lists
    for ent in [e for e in ctx.reach if gen.is_cfgval(e)]:
        for _ in range(ctx.n(150, 3000)):
            lay = gen.cfgval_layout(rng, ent, maxrep=rng.choice([3, 8, 64]))
            f = gen.frame(ent["cls"], ent["id"], lay.payload)
            lines.append(f"parse {ent['mode']} 1 {rng.choice([0, 1])} {f.hex()}")
            meta.append(("parse", ent, lay))
    py = do_corr(res, lines)
    first_name = {}
    for n_, (k_, t_) in db.items():
        first_name.setdefault(k_, n_)
    for m, a, l in zip(meta, py, lines):
        kind = m[0]
        res.hist[kind + (":ok" if a.startswith("ok") else ":" + a[4:])] += 1
        if kind in ("set", "del", "poll"):
            _, h1, h2, items = m
            if len(items) > 64:
                if a != "err UBXMessageError":
                    res.finding("class=more-than-64-accepted", f"{len(items)} items not refused with UBXMessageError: {a[:40]}", dict(op=l[:500]))
                continue
            if not a.startswith("ok "):
                if 0 <= h1 <= 255 and 0 <= h2 <= (65535 if kind == "poll" else 255):
                    res.finding(f"class=helper-refused-{a[4:]}", "config helper refused valid input", dict(op=l[:500]))
                continue
            res.distinct((kind, len(items)))
            pl = field(a, "payload")
            pl = b"" if pl in ("None", "-") else bytes.fromhex(pl)
            if kind == "poll":
                exp = b"\x00" + bytes([h1]) + h2.to_bytes(2, "little")
            else:
                exp = bytes([0 if h2 == 0 else 1, h1, h2, 0])
            for n_, k_, t_, v in items:
                exp += k_.to_bytes(4, "little")
                if kind == "set":
                    exp += gen.cfg_encode(t_, v)
            if pl != exp:
                res.finding(f"class=payload-layout;helper={kind}", "payload is not header + key ids (+ values at the storage width)", dict(op=l[:600], expected=exp.hex(), got=pl.hex()))
        elif kind == "name":
            _, name, kid, ty = m
            if a != f"ok {kid} {canon.tyshort(ty)}":
                res.finding(f"key={name};class=name-lookup", f"cfgname2key gives {a}", dict(op=l))
        elif kind == "key":
            _, name, kid, ty = m
            res.distinct(("key", kid))
            if a != f"ok {name} {canon.tyshort(ty)}":
                if a == f"ok {first_name[kid]} {canon.tyshort(ty)}":
                    res.finding(f"key={hex(kid)};class=two-names-for-one-id", f"key id {hex(kid)} is registered under {first_name[kid]} and {name}: id→name→id does not return to {name}", dict(op=l))
                else:
                    res.finding(f"key={hex(kid)};class=id-lookup", f"cfgkey2name gives {a}", dict(op=l))
            # size code of the id agrees with the declared type
            if ubc.UBX_CONFIG_STORSIZE.get((kid >> 28) & 7) != gen.tsize(ty):
                res.finding(f"key={hex(kid)};class=size-code", f"declared type {ty} disagrees with the id's size code", dict(op=l))
        elif kind == "ukey":
            kid = m[1]
            code = kid >> 28
            hexd = hex(kid)[2]
            if kid in first_name:
                continue
            if hexd in "12345":
                exp = f"ok CFG_{hex(kid)} X{ubc.UBX_CONFIG_STORSIZE[int(hexd)]}"
                if a != exp:
                    res.finding("class=unknown-key-naming", f"unknown id {hex(kid)} → {a}, expected {exp}", dict(op=l))
            elif not a.startswith("err "):
                res.finding("class=invalid-size-code-accepted", f"unknown id {hex(kid)} with invalid size code → {a}", dict(op=l))
        elif kind == "parse":
            _, ent, lay = m
            if not a.startswith("ok "):
                res.finding(f"class=cfgval-rejected-{a[4:]}", "CFG-VALSET/VALGET payload rejected", dict(op=l[:600]))
                continue
            res.distinct(("parse", len(lay.cfgitems)))
            bf = int(l.split()[3])
            exp = ",".join(f"{k}={canon.valstr(v)}" for k, v in lay.attrs[bf].items())
            if attrs_of(a) != exp:
                res.finding("class=cfgval-attrs", "parsed key/value attributes differ", dict(op=l[:600], expected=exp[:400], got=attrs_of(a)[:400]))
    samples = [l[:100] for l in lines[:2]] + [lines[-1][:100]]
    return res.finish("every database key × {name, id} through config_set, cfgname2key, cfgkey2name; lists of 0…70 items; unknown ids with all 16 top digits; parsed CFG-VALSET/VALGET payloads", samples)


CHECKS["C14"] = check_C14


# ----------------------------------------------------------------------------- C15

BAD_POOL = None


def bad_values(rng):
    return [
        -1, -(2 ** 63), 2 ** 64, 2 ** 31, 255, 256, 65536, 10 ** 30, 0, 1, True, False,
        0.5, -0.0, 1e300, float("nan"), float("inf"), float("-inf"), 3.0,
        "", "abc", "x" * 40, b"", b"\x01", b"\x01\x02", b"\xff" * 3, b"\x00" * 33, None, [], [1, 2, 3], [0] * 256, [300], ["a"], {"other": 1},
        # arrays of exactly the right length (A250, A256) whose *elements* are the problem: the container passes the type check
        [0] * 250, [0] * 255 + [0.5], [None] + [0] * 255, [0] * 249 + ["7"], [b"\x07"] + [0] * 249, [0] * 128 + [[7]] + [0] * 127,
        [300] + [0] * 255, [0] * 249 + [-1], [2 ** 70] + [0] * 249,
    ]


def spec_len(ent, kw):
    """payload length the definition implies for keyword-built messages (counted groups from the supplied counts)"""
    def walk(d, n):
        tot = 0
        for k, v in d.items():
            if isinstance(v, tuple):
                if v[0] in gen.BITTYPES:
                    tot += gen.tsize(v[0])
                else:
                    if isinstance(v[0], int):
                        c = v[0]
                    elif v[0] == "None":
                        c = 0
                    else:
                        c = kw.get(v[0], 0)
                        if not isinstance(c, int) or c < 0:
                            return None
                        # ESF-MEAS (SET): the group has one more member when calibTtagValid is set (documented special case)
                        if (ent["cls"], ent["id"], ent["mode"], v[0]) == (b"\x10", b"\x02", 1, "numMeas") and kw.get("calibTtagValid"):
                            c += 1
                    sub = walk(v[1], c)
                    if sub is None:
                        return None
                    tot += c * sub
            elif isinstance(v, list):
                tot += gen.tsize(v[0])
            elif v == "CH":
                return None
            else:
                tot += gen.tsize(v)
        return tot
    return walk(ent["defn"], 1)


def attr_slots(ent):
    """(base name, kind, type, scale, width bits) for every top-level or group-member attribute / flag"""
    out = []
    def walk(d, depth):
        for k, v in d.items():
            if isinstance(v, tuple):
                if v[0] in gen.BITTYPES:
                    for f, ft in v[1].items():
                        # reserved bit groups are fields too: the generator reads them from the keywords
                        out.append((f, "rflag" if f[0:8] == "reserved" else "flag", ft, None, depth))
                else:
                    walk(v[1], depth + 1)
            elif k[0:3] == "_HP":
                continue
            elif isinstance(v, list):
                out.append((k, "scaled", v[0], v[1], depth))
            else:
                out.append((k, "plain", v, None, depth))
    walk(ent["defn"], 0)
    return out


def check_C15(ctx):
    res = Result()
    rng = ctx.rng
    lines, meta = [], []
    ents = [e for e in ctx.reach if kw_constructible(e) and not gen.is_cfgval(e) and not own_name_clash(ctx.facts, e)]
    pool = bad_values(rng)
    per = ctx.n(3, 30)
    # every distinct (kind, type[, scale]) gets every value of the pool at least once, on the first definition using it
    todo = []
    seen_slot = set()
    for ent in ents:
        for slot in attr_slots(ent):
            key = (slot[1], slot[2], repr(slot[3]), min(slot[4], 1))
            if key not in seen_slot:
                seen_slot.add(key)
                for v in pool:
                    todo.append((ent, slot, v))
    for ent in ents:
        slots = attr_slots(ent)
        for _ in range(per if slots else 0):
            todo.append((ent, rng.choice(slots), rng.choice(pool)))
    for ent, slot, v in todo:
        if True:
            cs = gen.count_sources(ent["defn"])
            name, kind, ty, sc, depth = slot
            kw = {}
            # make grouped attributes exist: set count sources to 1
            for c in cs:
                kw[c] = 1
            rn = name + "_01" * depth
            kw[rn] = v
            # selector keywords so that the intended definition is chosen
            pin = ent.get("pin")
            if pin and pin[0] == "byte":
                for dk in ("type", "version"):
                    if dk in ent["defn"] and dk not in kw and dk != name:
                        kw[dk] = pin[2]
            toks = []
            for k, val in kw.items():
                b_, idx = (name, [1] * depth) if k == rn else (k, [])
                toks.append(f"{b_}:{'.'.join(map(str, idx))}={canon.valstr(val)}" if idx else f"{b_}={canon.valstr(val)}")
            lines.append(f"construct {ent['cls'].hex()} {ent['id'].hex()} {ent['mode']} 1 A " + " ".join(toks))
            meta.append((ent, name, rn, kind, ty, sc, v, kw))
    py = do_corr(res, lines)
    samples = []
    for (ent, name, rn, kind, ty, sc, v, kw), a, l in zip(meta, py, lines):
        nm = f"{defs.MODENAME[ent['mode']]}:{ent['name']}"
        res.hist[f"{kind}:{type(v).__name__}:" + ("built" if a.startswith("ok ") else a[4:])] += 1
        res.distinct((kind, ty, type(v).__name__, a[:6]))
        if not a.startswith("ok "):
            if a[4:] not in ("UBXMessageError", "UBXTypeError"):
                res.finding(f"class=escapes-as-{a[4:]};kind={kind};type={ty[0]}", f"bad value escaped as {a[4:]}", dict(op=l[:600]))
            continue
        pl = field(a, "payload")
        pl = b"" if pl in ("None", "-") else bytes.fromhex(pl)
        # the definition that was actually used (variant selection may differ from `ent`): re-derive by parsing
        try:
            m = UBXReader.parse(bytes.fromhex(field(a, "ser")), msgmode=ent["mode"], parsebitfield=True)
        except Exception as e:  # noqa
            key = f"class=accepted-but-unparseable;kind={kind};type={ty[0]}"
            if ty[0] == "C" and ty != "CH" and isinstance(v, (bytes, str)) and len(v if isinstance(v, bytes) else v.encode()) != gen.tsize(ty):
                key = "class=C-wrong-length-accepted"
            res.finding(key, f"value accepted, message does not parse back ({canon.excname(e)})", dict(op=l[:600]))
            continue
        L = spec_len(ent, kw)
        if L is not None and m.identity == ent["name"].split("-V")[0] if False else False:
            pass
        back = {k: x for k, x in m.__dict__.items() if k[0] != "_"}
        discr = ent.get("pin") is not None and name in ("type", "version", "tpIdx", "datumNum")
        if L is not None and len(pl) != L and ent["name"] == m.identity and not discr:
            key = f"class=payload-length;kind={kind};type={ty[0:1]}"
            if ty[0] == "C" and ty != "CH" and isinstance(v, (bytes, str)):
                key = "class=C-wrong-length-accepted"
            res.finding(key, f"payload has {len(pl)} bytes, the definition implies {L}", dict(op=l[:600]))
            continue
        if rn in back:
            got = back[rn]
            okv = False
            if kind == "scaled" and isinstance(v, (int, float)) and isinstance(got, (int, float)) and v == v:
                okv = abs(got - v) <= abs(sc) * (1 + 1e-9)
            elif ty == "CH" and isinstance(v, (bytes, str)):
                okv = (got == v) if isinstance(v, str) else (got == v.decode("utf-8", "backslashreplace"))
            elif isinstance(v, bool) and isinstance(got, int):
                okv = int(v) == got
            elif ty[0] == "R" and isinstance(v, (int, float)):
                if gen.tsize(ty) == 4 and v == v and abs(v) != float("inf"):
                    okv = got == struct.unpack("<f", struct.pack("<f", float(v)))[0]
                else:
                    okv = same_value(float(v), got)
            elif ty[0] == "C" and isinstance(v, str):
                okv = got == v.encode("utf-8", "backslashreplace")
            else:
                okv = same_value(got, v) or (isinstance(v, int) and not isinstance(v, bool) and got == v)
            if not okv:
                key = f"class=mis-encoded;kind={kind};type={ty[0]};py={type(v).__name__}"
                if ty[0] == "C" and ty != "CH" and isinstance(v, (bytes, str)):
                    key = "class=C-wrong-length-accepted"
                if ty[0] == "A" and isinstance(v, list):
                    key = "class=A-longer-list-truncated"
                res.finding(key, f"{rn} supplied {v!r} decodes as {got!r}", dict(op=l[:600]))
        # no other field disturbed: everything else is nominal / as supplied
        for k, x in back.items():
            if k == rn or k in kw:
                continue
            if not is_blank(x):
                key = f"class=other-field-altered;kind={kind};type={ty[0]}"
                if ty[0] == "C" and isinstance(v, (bytes, str)):
                    key = "class=C-wrong-length-accepted"
                res.finding(key, f"supplying {rn}={v!r} altered {k}={x!r}", dict(op=l[:600]))
                break
        if len(samples) < 3:
            samples.append(l[:120])
    return res.finish("distinct (attribute kind, type, python type of the value, outcome) over every keyword-constructible definition × bad-value pool", samples)


CHECKS["C15"] = check_C15


# ----------------------------------------------------------------------------- C16

def py_grammar_violations(ctx, ent):
    """independent (Python) statement of the README grammar; returns list of (rule, detail)"""
    out = []
    d = ent["defn"]
    own = set(ctx.facts.get("ownNames", []))
    valid_letters = set(pyubx2.ubxtypes_core.ATTTYPE)
    names = []          # all exposed base names (reserved flags excluded)
    top_prior = {}      # top-level names seen so far -> (kind, type)

    def okty(t):
        return isinstance(t, str) and (t == "CH" or (len(t) == 4 and t[0] in valid_letters and t[1:].isdigit() and int(t[1:]) > 0))

    def walk(dd, depth, top):
        items = list(dd.items())
        for pos, (k, v) in enumerate(items):
            if isinstance(v, tuple):
                numr, sub = v
                if numr in gen.BITTYPES:
                    tot = 0
                    for f, ft in sub.items():
                        if not okty(ft):
                            out.append(("W1", f"{k}.{f}: bad flag type {ft!r}"))
                        else:
                            tot += gen.tsize(ft)
                        if f[0:8] != "reserved":
                            names.append(f)
                            if top:
                                top_prior[f] = ("flag", ft)
                    if tot > 8 * gen.tsize(numr):
                        out.append(("W2", f"{k}: flags need {tot} bits, bitfield has {8 * gen.tsize(numr)}"))
                    names.append(("bf0", k))
                else:
                    if isinstance(numr, int):
                        pass
                    elif numr == "None":
                        if not top or pos != len(items) - 1:
                            out.append(("W4", f"{k}: variable-by-size group is not the last top-level item"))
                        for kk, vv in sub.items():
                            if isinstance(vv, (tuple, list)) and not (isinstance(vv, tuple) and vv[0] in gen.BITTYPES):
                                out.append(("W4", f"{k}.{kk}: member of a variable group is not a plain attribute"))
                    elif isinstance(numr, str):
                        src = top_prior.get(numr)
                        if src is None:
                            out.append(("W3", f"{k}: count {numr!r} is not an earlier top-level attribute"))
                        elif src[0] == "attr" and not (src[1][0] in "EILU" and gen.tsize(src[1]) <= 2):
                            out.append(("W3", f"{k}: count {numr!r} has type {src[1]}"))
                    else:
                        out.append(("W3", f"{k}: count of type {type(numr).__name__}"))
                    walk(sub, depth + 1, False)
            else:
                t, sc = (v[0], v[1]) if isinstance(v, list) else (v, None)
                if not okty(t):
                    out.append(("W1", f"{k}: bad type {t!r}"))
                if sc is not None and not (isinstance(t, str) and t[0] in "UI" and isinstance(sc, (int, float)) and sc > 0):
                    out.append(("W7", f"{k}: scale {sc!r} on type {t!r}"))
                if t == "CH" and len(d) != 1:
                    out.append(("W8", f"{k}: CH is not the sole item"))
                if k[0:3] == "_HP":
                    if k[3:] not in [x for x in names if isinstance(x, str)]:
                        out.append(("W9", f"{k}: no earlier attribute {k[3:]}"))
                else:
                    names.append(k)
                if top:
                    top_prior[k] = ("attr", t if isinstance(t, str) else "")
            if top and k in own:
                out.append(("W6", f"{k}: collides with UBXMessage.{k}"))
    walk(d, 0, True)
    plain = [x for x in names if isinstance(x, str)]
    dup = sorted({x for x in plain if plain.count(x) > 1})
    if dup:
        out.append(("W5", f"duplicate names {dup}"))
    bf0 = [x[1] for x in names if not isinstance(x, str)]
    for x in plain:
        parts = x.split("_")
        if len(parts) > 1 and parts[-1].isdigit() and any(isinstance(v, tuple) and v[0] not in gen.BITTYPES for v in d.values()):
            out.append(("W5", f"name {x} ends in _digits in a definition with groups"))
    return out


def nominal_payload(ent):
    """all-zero payload of the definition's minimal size, with the variant discriminator pinned"""
    L = spec_len(ent, {})
    if L is None:
        L = 0
    p = bytearray(L)
    pin = ent.get("pin")
    if pin and pin[0] == "byte" and len(p) > pin[1]:
        p[pin[1]] = pin[2]
    if pin and pin[0] == "bytene" and len(p) > pin[1] and p[pin[1]] in pin[2]:
        p[pin[1]] = (max(pin[2]) + 1) % 256
    return bytes(p)


def nominal_roundtrip(ent, bf):
    """build the nominal instance and parse it back; returns error string or None.
    Route 1: payload bytes (always). Route 2: keywords, when the definition can be selected by keywords."""
    try:
        p = nominal_payload(ent)
        m = UBXMessage(ent["cls"], ent["id"], ent["mode"], parsebitfield=bool(bf), payload=p) if p else UBXMessage(ent["cls"], ent["id"], ent["mode"])
        m2 = UBXReader.parse(m.serialize(), msgmode=ent["mode"], parsebitfield=bool(bf))
        if m2.serialize() != m.serialize() or m2.identity != m.identity:
            return "payload route: reparse differs"
        if p and not gen.is_cfgval(ent):
            # the definition actually selected must be this one: same attribute names as the zero layout
            pass
        if kw_constructible(ent) and not kw_maybe(ent) and p:
            kw = {}
            pin = ent.get("pin")
            for dk in ("type", "version"):
                if pin and pin[0] in ("byte", "bytene") and dk in ent["defn"]:
                    kw[dk] = p[pin[1]]
                    break
            if ent["name"] == "CFG-DAT-NUM":
                kw["datumNum"] = 0
            if ent["name"] == "CFG-TP5-TPX":
                kw["tpIdx"] = 0
            if ent["name"] == "RXM-PMREQ":
                kw["version"] = 0
            if not kw:
                for k, v in ent["defn"].items():
                    if isinstance(v, str) and v != "CH":
                        kw[k] = uh.nomval(v)
                        break
                    if isinstance(v, list):
                        kw[k] = 0
                        break
                    if isinstance(v, tuple) and v[0] in gen.BITTYPES:
                        f = next(iter(v[1]))
                        if f[0:8] != "reserved":
                            kw[f] = 0
                            break
            if kw:
                mk = UBXMessage(ent["cls"], ent["id"], ent["mode"], parsebitfield=bool(bf), **kw)
                if mk.serialize() != m.serialize():
                    return f"keyword route builds {mk.serialize().hex()[:60]}, payload route {m.serialize().hex()[:60]}"
    except Exception as e:  # noqa
        return f"{canon.excname(e)}: {str(e)[:80]}"
    return None


def check_C16(ctx):
    res = Result()
    for bn, line, key, first in source_dup_keys(["ubxtypes_get.py", "ubxtypes_set.py", "ubxtypes_poll.py", "ubxtypes_core.py",
                                                  "ubxtypes_configdb.py"]):
        res.finding(f"dupkey={bn}:{key}", f"{bn}:{line}: name {key} is written twice in one dict literal (first at line {first}): "
                    "two fields / entries are declared under one name and the loaded table keeps only one of them",
                    dict(file=bn, line=line, key=key, first_line=first))
    # translator round trip: every definition dumped back by the driver equals the live Python object
    lines, meta = [], []
    for tname, mode in (("get", GET), ("set", SET), ("poll", POLL)):
        tbl = defs.TABLES[mode]
        for i, (k, d) in enumerate(tbl.items()):
            lines.append(f"dumpdef {tname} {i}")
            meta.append((k, d))
        lines.append(f"dumpcount {tname}")
        meta.append((None, len(tbl)))
    mo = run_model(lines)
    res.count(len(lines))
    for (k, d), a, l in zip(meta, mo, lines):
        exp = str(d) if k is None else f"{k} [{dump_items(d)}]"
        if a != exp:
            res.diffs.append(dict(op=l, py=exp[:300], model=a[:300]))
    ids = list(UBX_MSGIDS.items())
    mo2 = run_model([f"dumpmsgid {i}" for i in range(len(ids))] + ["dumpcount msgids", "dumpcount cfgdb"])
    res.count(len(mo2))
    for (k, v), a in zip(ids, mo2):
        if a != f"{k.hex()} {v}":
            res.diffs.append(dict(op="dumpmsgid", py=f"{k.hex()} {v}", model=a))
    if mo2[-2] != str(len(ids)) or mo2[-1] != str(len(ubc.UBX_CONFIG_DATABASE)):
        res.diffs.append(dict(op="dumpcount", py=f"{len(ids)} {len(ubc.UBX_CONFIG_DATABASE)}", model=" ".join(mo2[-2:])))
    cfg = list(ubc.UBX_CONFIG_DATABASE.items())
    idxs = list(range(len(cfg)))
    mo3 = run_model([f"dumpcfg {i}" for i in idxs])
    res.count(len(mo3))
    for i, a in zip(idxs, mo3):
        k, (kid, ty) = cfg[i]
        if a != f"{k} {kid} {canon.tyshort(ty)}":
            res.diffs.append(dict(op=f"dumpcfg {i}", py=f"{k} {kid} {canon.tyshort(ty)}", model=a))
    # the variant table: an MGA selector registered for (mode, class/id) looks the message up under class/id + type byte
    # in that mode's table — an entry for which no such definition exists can only ever raise (a selector filed under the
    # wrong mode, or for the wrong id)
    import pyubx2.ubxvariants as ubv
    for mode_, tbl_ in ubv.VARIANTS.items():
        for key_, fn_ in tbl_.items():
            res.count()
            if fn_ is ubv.get_mga_dict:
                names = [n for k, n in UBX_MSGIDS.items() if len(k) == 3 and k[:2] == key_]
                if not any(n in defs.TABLES[mode_] for n in names):
                    res.finding(f"variant={defs.MODENAME[mode_]}:{key_.hex()};rule=dead-selector",
                                f"VARIANTS[{defs.MODENAME[mode_]}][{key_.hex()}] is the MGA selector, but none of {names or 'no 3-byte ids'} "
                                f"has a {defs.MODENAME[mode_]} definition: the entry can only raise",
                                dict(mode=mode_, key=key_.hex(), names=names))
    # grammar (independent Python statement) and usability of every declared (message, mode)
    for ent in ctx.cat:
        nm = f"{defs.MODENAME[ent['mode']]}:{ent['name']}"
        res.distinct(nm)
        for rule, detail in py_grammar_violations(ctx, ent):
            res.finding(f"def={nm};rule={rule}", f"definition breaks grammar rule {rule}: {detail}", dict(definition=nm, detail=detail))
        if not ent["reachable"]:
            res.finding(f"def={nm};rule=unreachable", "definition cannot be reached from any class/id in UBX_MSGIDS / variant selector", dict(definition=nm))
            continue
        for bf in (1,):
            err = nominal_roundtrip(ent, bf)
            res.count()
            if err:
                res.finding(f"def={nm};rule=nominal-instance", f"nominal instance cannot be built and parsed: {err}", dict(definition=nm))
        # every exposed name distinct on a laid-out instance (both views)
        lay = gen.layout(ctx.rng, ent, maxrep=2)
        if lay is not None:
            for bf in (0, 1):
                try:
                    m = UBXReader.parse(gen.frame(ent["cls"], ent["id"], lay.payload), msgmode=ent["mode"], parsebitfield=bool(bf))
                except Exception:  # noqa
                    continue
                n_fields = sum(1 for f in lay.fields if f[5] == "attr" and not f[0].startswith("_HP")) if bf == 0 else None
                if bf == 0:
                    n_fields += sum(1 for f in lay.fields if f[5] == "bits")
                    got = len([k for k in m.__dict__ if k[0] != "_"])
                    if got != n_fields and not gen.is_cfgval(ent) and lay.payload:
                        res.finding(f"def={nm};rule=W5", f"{n_fields} payload fields are exposed under {got} attribute names", dict(definition=nm))
    # id table ↔ definitions
    alld = set()
    for t in defs.TABLES.values():
        alld |= set(t)
    # … and the other way round: an id the table declares by name resolves to that name (`identity`), so without a
    # definition in any mode every frame with that class/id is refused, where an undeclared id would be read as NOMINAL.
    # The pseudo-classes that only name NMEA / RTCM / SPARTN rate settings (no id of theirs has a definition) are not
    # message types; within a class that has definitions, every declared id must have one.
    usable = {}
    for k in UBX_MSGIDS:
        ok_modes = []
        for mode in (GET, SET, POLL):
            try:
                UBXMessage(k[0:1], k[1:2], mode, payload=k[2:3])
                ok_modes.append(mode)
            except UBXMessageError as e:
                if "nknown message type" not in str(e) and "nknown" not in str(e):
                    ok_modes.append(mode)
            except Exception:  # noqa  (any other refusal means a definition was found and walked)
                ok_modes.append(mode)
        usable[k] = ok_modes
        res.count()
    live_classes = {k[0:1] for k, m in usable.items() if m}
    for k, m in usable.items():
        if not m and k[0:1] in live_classes:
            res.finding(f"msgid={k.hex()};rule=no-definition",
                        f"message id {k.hex()} is declared as {UBX_MSGIDS[k]} but has no payload definition in any mode: "
                        "every frame with this class/id is refused", dict(msgid=k.hex(), name=UBX_MSGIDS[k]))
    samples = [lines[0], mo[0][:120]]
    res.assumptions = ["the grammar is the one under 'Extensibility' in README.md, made precise in DESIGN.md §7 C16 (W1–W9)"]
    return res.finish("every entry of the GET/SET/POLL tables (exhaustive): translator round-trip, grammar rules W1–W9 stated independently in Python, nominal instance built and re-parsed, field-count vs attribute-count", samples)


def dump_ty(t):
    return canon.tyshort(t) if isinstance(t, str) else "?"


def dump_items(d):
    out = []
    for k, v in d.items():
        if isinstance(v, tuple):
            numr, sub = v
            if numr in gen.BITTYPES:
                out.append(f"B({k},{dump_ty(numr)},[{','.join(f'{f}:{dump_ty(ft)}' for f, ft in sub.items())}])")
            else:
                c = f"#{numr}" if isinstance(numr, int) else ("None" if numr == "None" else f"@{numr}")
                out.append(f"G({k},{c},[{dump_items(sub)}])")
        elif isinstance(v, list):
            sc = v[1]
            if sc == 1:
                s = "1"
            elif isinstance(sc, int):
                s = f"i{sc}"
            else:
                s = "f" + struct.pack(">d", sc).hex()
            out.append(f"A({k},{dump_ty(v[0])},{s})")
        else:
            out.append(f"A({k},{dump_ty(v)},1)")
    return ",".join(out)


CHECKS["C16"] = check_C16


# ----------------------------------------------------------------------------- C17


def payload_of_length(rng, ent, T):
    """a payload conforming to catalogue entry `ent` of exactly T bytes (counts / variable groups / trailing text sized
    accordingly), or None when the definition cannot reach that size"""
    d = ent["defn"]
    if gen.is_cfgval(ent):
        if (T - 4) % 6:
            return None
        two = [v[0] for v in ubc.UBX_CONFIG_DATABASE.values() if gen.tsize(v[1]) == 2 and v[1][0] in "UEIX"]
        n = (T - 4) // 6
        if n > len(two):
            return None
        hdr = gen.layout(rng, ent, forcerep=0)
        if hdr is None or len(hdr.payload) != 4:
            return None
        return hdr.payload + b"".join(k.to_bytes(4, "little") + bytes(rng.getrandbits(8) for _ in range(2)) for k in rng.sample(two, n))
    l0 = gen.layout(rng, ent, forcerep=0)
    l1 = gen.layout(rng, ent, forcerep=1)
    if l0 is None or l1 is None:
        return None
    if "CH" in [v for v in d.values() if isinstance(v, str)]:
        return l0.payload + b"x" * (T - len(l0.payload)) if len(l0.payload) <= T else None
    s0, m = len(l0.payload), len(l1.payload) - len(l0.payload)
    if m <= 0 or (T - s0) % m or T < s0:
        return None
    lay = gen.layout(rng, ent, forcerep=(T - s0) // m)
    return lay.payload if lay is not None and len(lay.payload) == T else None


def check_C17(ctx):
    res = Result()
    rng = ctx.rng
    lines, meta = [], []
    ents = [e for e in ctx.reach if e["mode"] in (SET, POLL)]
    for ent in ents:
        for _ in range(ctx.n(6, 60)):
            lay = gen.layout(rng, ent, maxrep=rng.choice([0, 1, 2, 3]))
            if lay is None:
                continue
            f = gen.frame(ent["cls"], ent["id"], lay.payload)
            bf = rng.choice([0, 1])
            val = rng.choice([1, 1, 0])       # the mode is resolved the same way whether or not the frame is validated
            lines.append(f"parse 3 {val} {bf} {f.hex()}")
            meta.append((ent, lay, "setpoll"))
            lines.append(f"parse {ent['mode']} {val} {bf} {f.hex()}")
            meta.append((ent, lay, "true"))
    # conforming payloads whose length sits on a byte boundary of the length field (256, 512, 768 bytes)
    class _L:  # minimal stand-in for a Layout: only the payload is used below
        def __init__(self, p): self.payload = p
    for ent in ents:
        for T in (256, 512, 768):
            p = payload_of_length(rng, ent, T)
            if p is None:
                continue
            res.hist[f"boundary{T}"] += 1
            f = gen.frame(ent["cls"], ent["id"], p)
            bf = rng.choice([0, 1])
            lines.append(f"parse 3 1 {bf} {f.hex()}")
            meta.append((ent, _L(p), "setpoll"))
            lines.append(f"parse {ent['mode']} 1 {bf} {f.hex()}")
            meta.append((ent, _L(p), "true"))
    py = do_corr(res, lines)
    for i in range(0, len(lines), 2):
        ent, lay, _ = meta[i]
        a, b = py[i], py[i + 1]
        nm = f"{defs.MODENAME[ent['mode']]}:{ent['name']}"
        res.distinct((nm, len(lay.payload)))
        if not b.startswith("ok "):
            continue    # not generatable in its own mode (C02/C16 findings)
        if a != b:
            res.finding(f"def={nm};class=setpoll-resolves-wrong-mode",
                        f"SETPOLL parses a {defs.MODENAME[ent['mode']]} message as mode {field(a, 'mode') if a.startswith('ok') else a}", dict(op=lines[i][:300]))
    # the same through the stream reader: a reader opened with msgmode=SETPOLL decides per frame, whatever came before
    # it in the stream (other protocols, frames of the other mode)
    goodf = [(meta[i][0], bytes.fromhex(lines[i].split()[4]), py[i + 1]) for i in range(0, len(lines), 2)
             if py[i + 1].startswith("ok ") and py[i] == py[i + 1] and len(lines[i]) < 3000]   # frames the static parse resolves rightly
    for _ in range(ctx.n(60, 600)):
        if not goodf:
            break
        picks = [rng.choice(goodf) for _ in range(rng.randrange(1, 5))]
        parts, expect = [], []
        for ent, f, truth in picks:
            r = rng.random()
            if r < 0.4:
                parts.append(nmea_frame(rng))
            elif r < 0.6:
                parts.append(rtcm_frame(rng, rng.choice([8, 19, 40])))
            parts.append(f)
            expect.append((ent, f))
        stream = b"".join(parts)
        try:
            sval = rng.choice([1, 1, 0])
            got = [(raw, parsed) for raw, parsed in UBXReader(io.BytesIO(stream), msgmode=3, quitonerror=0, validate=sval, protfilter=rng.choice([7, 7, 3, 6, 2]))
                   if raw[:1] == b"\xb5"]
        except Exception as e:  # noqa
            res.finding(f"class=setpoll-stream-raises-{canon.excname(e)}", "reading a stream of generated SET/POLL frames with msgmode=SETPOLL raised", dict(stream=stream.hex()[:4000]))
            continue
        res.count()
        want = []
        for ent, f in expect:
            try:
                want.append((f, canon.msgdump(UBXReader.parse(f, msgmode=ent["mode"], validate=sval))))
            except Exception:  # noqa
                want.append((f, None))
        have = [(raw, canon.msgdump(p) if p is not None else None) for raw, p in got]
        if have != want:
            res.finding("class=setpoll-stream-differs", "a reader opened with msgmode=SETPOLL delivers a generated SET/POLL frame differently from parsing it in its own mode",
                        dict(stream=stream.hex()[:4000], modes=[e["mode"] for e, _ in expect]))
    # getinputmode itself: exhaustive over class/id × total length (it reads nothing else)
    il = []
    step = 1 if ctx.tier == "thorough" else 7
    ids = [(c, i) for c in range(256) for i in range(256)]
    for n, (c, i) in enumerate(ids):
        if ctx.tier != "thorough" and c not in (6, 1, 5, 0x0b, 0x13) and n % step:
            continue
        for L in (6, 7, 8, 9, 10, 11, 12, 20):
            il.append("inputmode " + (b"\xb5\x62" + bytes([c, i]) + bytes(L - 4)).hex())
        if c in (6, 1, 5, 0x0b, 0x13) or n % 64 == 0:
            # well-formed frames (length field = total - 8) around the byte boundaries of the length field
            for L in (8, 9, 10, 263, 264, 265, 520, 776):
                il.append("inputmode " + gen.frame(bytes([c]), bytes([i]), bytes(L - 8)).hex())
    do_corr(res, il)
    for l in il[:3]:
        res.distinct(l)
    samples = [lines[0][:100], il[0]]
    return res.finish("distinct (SET/POLL definition, payload length) conforming payloads parsed with SETPOLL and with their true mode; getinputmode over class/id × total length", samples)


CHECKS["C17"] = check_C17


# ----------------------------------------------------------------------------- C18

def types_in_use(ctx):
    ts = set()
    def walk(d):
        for k, v in d.items():
            if isinstance(v, tuple):
                if v[0] in gen.BITTYPES:
                    ts.add(v[0])
                else:
                    walk(v[1])
            elif isinstance(v, list):
                ts.add(v[0])
            else:
                ts.add(v)
    for e in ctx.cat:
        walk(e["defn"])
    for k, (kid, ty) in ubc.UBX_CONFIG_DATABASE.items():
        ts.add(ty)
    return sorted(t for t in ts if isinstance(t, str))


def fletcher_ref(bs):
    n = len(bs)
    return bytes([sum(bs) % 256, sum((n - i) * b for i, b in enumerate(bs)) % 256])


def check_C18(ctx):
    res = Result()
    rng = ctx.rng
    lines, meta = [], []
    types = types_in_use(ctx)
    valid = [t for t in types if t == "CH" or (len(t) == 4 and t[0] in "ACEILRUX" and t[1:].isdigit())]
    for t in valid:
        if t == "CH":
            for v in ("", "abc", "héllo"):
                lines.append(f"v2b CH {canon.valstr(v)}"); meta.append(("v2b", t, v))
            lines.append("nomval CH"); meta.append(("nomval", t, None))
            continue
        n = gen.tsize(t)
        L = t[0]
        lines.append(f"nomval {t}"); meta.append(("nomval", t, None))
        lines.append(f"attsiz {t}"); meta.append(("attsiz", t, None))
        if L in "EILU":
            lo, hi = type_range(t)
            if n <= 2 and (ctx.tier == "thorough" or n == 1):
                vals = range(lo, hi + 1)
            else:
                vals = sorted(set([lo, lo + 1, -1, 0, 1, hi - 1, hi] + [rng.randrange(lo, hi + 1) for _ in range(ctx.n(40, 400))]))
                vals = [v for v in vals if lo <= v <= hi]
            for v in vals:
                lines.append(f"v2b {t} i{v}"); meta.append(("v2b", t, v))
            for v in (lo - 1, hi + 1, lo - 2 ** 70, hi + 2 ** 70):
                lines.append(f"v2b {t} i{v}"); meta.append(("v2b-out", t, v))
            for _ in range(ctx.n(20, 200)):
                b = bytes(rng.getrandbits(8) for _ in range(n))
                lines.append(f"b2v {t} {canon.hx(b)}"); meta.append(("b2v", t, b))
        elif L in "XC":
            for _ in range(ctx.n(8, 60)):
                b = gen.rand_bytes(rng, n)
                lines.append(f"v2b {t} y{canon.hx(b)}"); meta.append(("v2b", t, b))
                lines.append(f"b2v {t} {canon.hx(b)}"); meta.append(("b2v", t, b))
            for b in (b"", bytes(n + 1), bytes(max(n - 1, 0))):
                if len(b) != n:
                    lines.append(f"v2b {t} y{canon.hx(b)}"); meta.append(("v2b-out", t, b))
        elif L == "R":
            for _ in range(ctx.n(60, 600)):
                b = bytes(rng.getrandbits(8) for _ in range(n))
                lines.append(f"b2v {t} {canon.hx(b)}"); meta.append(("b2v", t, b))
                x = struct.unpack("<f" if n == 4 else "<d", b)[0]
                lines.append(f"v2b {t} {canon.f64hex(x)}"); meta.append(("v2b", t, x))
            for x in (0.0, -0.0, 1.0, 1e38, 3.5e38, 1e39, -1e39, float("inf"), 1e-46, 5e-324, 16777217.0, 0.1):
                lines.append(f"v2b {t} {canon.f64hex(x)}"); meta.append(("v2b", t, x))
            for v in (0, 1, -7, 2 ** 53 + 1, 10 ** 400):
                lines.append(f"v2b {t} i{v}"); meta.append(("v2b", t, v))
        elif L == "A":
            for _ in range(ctx.n(4, 30)):
                lst = [rng.getrandbits(8) for _ in range(n)]
                lines.append(f"v2b {t} l{','.join(map(str, lst))}"); meta.append(("v2b", t, lst))
                lines.append(f"b2v {t} {canon.hx(bytes(lst))}"); meta.append(("b2v", t, bytes(lst)))
            lines.append(f"v2b {t} l{','.join(['0'] * (n - 1))}"); meta.append(("v2b-out", t, [0] * (n - 1)))
            lines.append(f"v2b {t} l{','.join(['256'] + ['0'] * (n - 1))}"); meta.append(("v2b-out", t, [256] + [0] * (n - 1)))
        # wrong python types are refused
        for v in (None, "1", b"\x01", 1.5, [1], True, 7):
            lines.append(f"v2b {t} {canon.valstr(v)}"); meta.append(("v2b-type", t, v))
    for t in ("Z002", "Y001", "U00x", "", "Q004"):
        if t:
            lines.append(f"v2b {t} i1"); meta.append(("badtype", t, 1))
            lines.append(f"b2v {t} 01"); meta.append(("badtype", t, 1))
            lines.append(f"nomval {t}"); meta.append(("badtype", t, 1))
    # checksums: all byte strings ≤ 2 (3 in thorough) + random longer
    maxl = ctx.n(2, 3)
    for L in range(maxl + 1):
        for tup in (itertools.product(range(256), repeat=L) if L < 3 else itertools.product(range(0, 256, 1), repeat=3)):
            b = bytes(tup)
            lines.append(f"cksum {canon.hx(b)}"); meta.append(("cksum", None, b))
            if L >= 3 and len(lines) > 3_000_000:
                break
    for _ in range(ctx.n(2000, 30000)):
        b = bytes(rng.getrandbits(8) for _ in range(rng.randrange(3, 300)))
        lines.append(f"cksum {canon.hx(b)}"); meta.append(("cksum", None, b))
        f = b"\xb5\x62" + b + (uh.calc_checksum(b) if rng.random() < 0.5 else bytes(rng.getrandbits(8) for _ in range(2)))
        lines.append(f"isvalid {canon.hx(f)}"); meta.append(("isvalid", None, f))
    # float layer (validates the exact binary64 model against CPython)
    scales = sorted({v[1] for e in ctx.cat for v in _walk_scaled(e["defn"])}, key=repr)
    for sc in scales:
        for _ in range(ctx.n(25, 400)):
            t = rng.choice(["U001", "I001", "U002", "I002", "U004", "I004"])
            b = bytes(rng.getrandbits(8) for _ in range(gen.tsize(t)))
            lines.append(f"scaleup {t} {canon.valstr(sc)} {canon.hx(b)}"); meta.append(("scaleup", sc, b))
            raw = int.from_bytes(b, "little", signed=t[0] == "I")
            rep = round(raw * sc, 12)
            lines.append(f"scaledown {canon.valstr(sc)} {canon.valstr(rep)}"); meta.append(("scaledown", sc, rep))
        for v in (0, 1, -1, 0.29, 1e300, -0.0, float("inf"), float("nan"), 10 ** 400, True):
            lines.append(f"scaledown {canon.valstr(sc)} {canon.valstr(v)}"); meta.append(("scaledown", sc, v))
    # helper pairs
    for _ in range(ctx.n(4000, 200000)):
        itow = rng.randrange(0, 604800000) if rng.random() < 0.9 else rng.choice([0, 1, 17999, 18000, 604799999, 604800000, 2 ** 32 - 1])
        lines.append(f"itow2utc {itow}"); meta.append(("itow2utc", None, itow))
    for _ in range(ctx.n(4000, 200000)):
        wno = rng.randrange(0, 4000)
        ms = rng.randrange(0, 604800000)
        us = (wno * 604800000 + ms) * 1000 - 18_000_000
        if us < 0:
            continue
        lines.append(f"utc2itow {us}"); meta.append(("utc2itow", None, (wno, ms, us)))
    for _ in range(ctx.n(1500, 30000)):
        sc = rng.choice([1e-7, 1e-2, 1e-3, 0.1])
        sp = rng.randrange(-2 ** 31, 2 ** 31)
        hp = rng.randrange(-99, 100)
        val = (sp + hp / 100) * sc
        lines.append(f"val2sphp {int.from_bytes(struct.pack('>d', val), 'big')} {int.from_bytes(struct.pack('>d', sc), 'big')}")
        meta.append(("val2sphp", sc, (sp, hp, val)))
    for _ in range(ctx.n(2000, 40000)):
        n = rng.choice([1, 1, 2, 4])
        b = bytes(rng.getrandbits(8) for _ in range(n))
        lo = rng.randrange(8 * n)
        w = rng.randrange(1, 8 * n - lo + 1)
        mask = ((1 << w) - 1) << lo
        lines.append(f"getbits {canon.hx(b)} {mask}"); meta.append(("getbits", None, (b, lo, w)))
    lines.append("getbits - 1"); meta.append(("getbits-empty", None, None))
    for name in ["svid", "gnssId", "tow", "reserved1", "cno", "dataBytes", "a1UTC"]:
        for idx in ([], [1], [6], [12], [99], [100], [3, 4], [1, 2, 3], [255, 1]):
            s = name + "".join(f"_{i:02d}" for i in idx)
            lines.append(f"att2idx {s.encode().hex()}"); meta.append(("att2idx", name, idx))
            lines.append(f"att2name {s.encode().hex()}"); meta.append(("att2name", name, idx))
    for s in ("CFG_NMEA_PROTVER", "_HPlon", "svid_ab", "a_1_b", "x_", "_"):
        lines.append(f"att2idx {s.encode().hex()}"); meta.append(("att2idx-raw", s, None))
        lines.append(f"att2name {s.encode().hex()}"); meta.append(("att2name-raw", s, None))
    for _ in range(ctx.n(2000, 20000)):
        b = bytes(rng.choice(b"\xb5\x62\x24\x47\x50\xd3\x00\x03\x04\xff") for _ in range(rng.randrange(2, 6)))
        lines.append(f"protocol {canon.hx(b)}"); meta.append(("protocol", None, b))
    py = do_corr(res, lines)
    for (kind, t, v), a, l in zip(meta, py, lines):
        res.hist[kind] += 1
        if kind == "v2b":
            if t != "CH" and a.startswith("ok ") and len(canon.unhx(a[3:])) != gen.tsize(t):
                res.finding(f"class=wrong-width;type={t[0]}", f"val2bytes({v!r}, {t}) has {len(canon.unhx(a[3:]))} bytes", dict(op=l))
            if a.startswith("ok "):
                res.distinct((t, a))
                back = canon.handle(f"b2v {t} {a[3:]}")
                exp = canon.valstr(v)
                if t[0] == "R":
                    x = float(v) if not isinstance(v, float) else v
                    if gen.tsize(t) == 4:
                        x = struct.unpack("<f", struct.pack("<f", x))[0]
                    exp = canon.f64hex(x)
                if t[0] == "C" and isinstance(v, str):
                    exp = canon.valstr(v.encode("utf-8")) if t != "CH" else canon.valstr(v)
                if back != "ok " + exp:
                    res.finding(f"class=not-inverse;type={t[0]}", f"bytes2val(val2bytes({v!r})) = {back}", dict(op=l))
            elif t[0] in "EILU" or (t[0] == "R" and isinstance(v, float) and abs(v) < 1e38):
                res.finding(f"class=in-range-refused;type={t[0]}", f"val2bytes({v!r}, {t}) → {a}", dict(op=l))
        elif kind in ("v2b-out", "badtype"):
            if a.startswith("ok ") and kind == "v2b-out" and not (t[0] == "C"):
                res.finding(f"class=out-of-range-accepted;type={t[0]}", f"val2bytes({v!r}, {t}) accepted: {a}", dict(op=l))
            if kind == "badtype" and a.startswith("ok ") and t[0] not in "ACEILRUX":
                res.finding("class=bad-type-accepted", f"{l} → {a}", dict(op=l))
        elif kind == "v2b-type":
            okpy = {"A": (list,), "C": (bytes, str), "E": (int,), "I": (int,), "L": (int,), "R": (int, float), "U": (int,), "X": (bytes,)}[t[0]]
            if not isinstance(v, okpy) and a.startswith("ok "):
                res.finding(f"class=wrong-python-type-accepted;type={t[0]}", f"val2bytes({v!r}, {t}) accepted", dict(op=l))
        elif kind == "nomval":
            if t != "CH" and a.startswith("ok "):
                enc = canon.handle(f"v2b {t} {a[3:]}")
                if enc != "ok " + canon.hx(bytes(gen.tsize(t))):
                    res.finding(f"class=nomval-not-zero;type={t[0]}", f"val2bytes(nomval({t})) = {enc}", dict(op=l))
                # the nominal value is a fresh value every time: what a caller does with a mutable one (array types
                # yield a list) must not change what the next caller gets
                try:
                    first = uh.nomval(t)
                    if isinstance(first, list) and first:
                        first[0] = 77
                        first.append(5)
                    again = uh.nomval(t)
                    if isinstance(again, list) and (again is first or uh.val2bytes(again, t) != bytes(gen.tsize(t))):
                        res.finding(f"class=nomval-shared-mutable;type={t[0]}", f"nomval({t}) hands out one shared list: after a caller changed it, the next nominal value is {again[:4]}…", dict(op=l))
                        del first[-1]; first[0] = 0      # undo, so that later probes see the library as it was
                except Exception as e:  # noqa
                    res.finding(f"class=nomval-shared-mutable;type={t[0]}", f"nomval({t}) after a caller changed an earlier result: {canon.excname(e)}", dict(op=l))
        elif kind == "cksum":
            if a != fletcher_ref(v).hex():
                res.finding("class=checksum-not-fletcher", f"calc_checksum({v.hex()[:40]}) = {a}", dict(op=l[:200]))
        elif kind == "isvalid":
            exp = "true" if v[-2:] == fletcher_ref(v[2:-2]) else "false"
            if a != exp:
                res.finding("class=isvalid-disagrees", f"isvalid_checksum → {a}, Fletcher says {exp}", dict(op=l[:200]))
        elif kind == "utc2itow":
            wno, ms, us = v
            # consistency: absolute time is preserved and itow2utc gives the same time of day
            if not a.startswith("ok "):
                res.finding("class=utc2itow-raises", a, dict(op=l))
                continue
            w, i = map(int, a.split()[1:])
            if w * 604800000 + i != wno * 604800000 + ms:
                res.finding("class=utc2itow-off", f"utc2itow gives ({w},{i}) for week {wno} ms {ms}", dict(op=l))
            else:
                tod = canon.handle(f"itow2utc {i}")
                if tod != f"ok {us % 86400000000}":
                    res.finding("class=itow2utc-inconsistent", f"itow2utc({i}) = {tod}, expected time of day {us % 86400000000} µs", dict(op=l))
        elif kind == "itow2utc":
            exp = ((v * 1000) - 18_000_000) % 86_400_000_000
            if a != f"ok {exp}":
                res.finding("class=itow2utc-off", f"itow2utc({v}) = {a}, expected {exp} µs after midnight", dict(op=l))
        elif kind == "val2sphp":
            sp, hp, val = v
            if a.startswith("ok "):
                s_, h_ = map(int, a.split()[1:])
                # reconstruction within one hp unit
                if abs((s_ * 100 + h_) - (sp * 100 + hp)) > 1:
                    res.finding("class=val2sphp-off", f"val2sphp gives ({s_},{h_}) for ({sp},{hp})", dict(op=l))
                elif not -100 <= h_ <= 100:
                    res.finding("class=val2sphp-hp-range", f"hp={h_}", dict(op=l))
        elif kind == "getbits":
            b, lo, w = v
            exp = (int.from_bytes(b, "big") >> lo) & ((1 << w) - 1)
            if a != f"ok {exp}":
                res.finding("class=get_bits-formula", f"get_bits → {a}, formula gives {exp}", dict(op=l))
            if len(b) == 1:
                # agreement with the parser's flag slicing for one-byte bitfields
                pass
        elif kind == "att2idx":
            idx = v
            exp = "0" if not idx else (str(idx[0]) if len(idx) == 1 else "(" + ",".join(map(str, idx)) + ")")
            if a != exp:
                res.finding("class=att2idx", f"{l} → {a}, expected {exp}", dict(op=l))
        elif kind == "att2name":
            if a != canon.hx(t.encode()):
                res.finding("class=att2name", f"{l} → {a}", dict(op=l))
        elif kind == "protocol":
            b = v
            exp = 2 if b[:2] == b"\xb5\x62" else 1 if (b[0] == 0x24 and b[1] in ctx.facts["nmeaHdr2"]) else 4 if (b[0] == 0xd3 and b[1] & 0xfc == 0) else 0
            if a != f"ok {exp}":
                res.finding("class=protocol", f"protocol({b.hex()}) = {a}, expected {exp}", dict(op=l))
    samples = [lines[5], lines[len(lines) // 2][:100], lines[-1]]
    return res.finish("distinct (type, encoding) pairs from val2bytes; all types in use × exhaustive 1-byte (2-byte in thorough) ranges, boundaries and random wider values; all byte strings ≤ 2 (3) for checksums; scale/unscale for every scale factor in the tables; helper pairs", samples)


def _walk_scaled(d):
    for k, v in d.items():
        if isinstance(v, list):
            yield v
        elif isinstance(v, tuple) and v[0] not in gen.BITTYPES:
            yield from _walk_scaled(v[1])


CHECKS["C18"] = check_C18
