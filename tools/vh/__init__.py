"""Verification harness for pyubx2 (correspondence check, direct oracles, check runner)."""
