"""Catalogue of the payload definitions of the working tree and how to reach each through the
public API (class/id, mode, variant discriminators)."""
from pyubx2.ubxtypes_core import UBX_MSGIDS, UBX_CLASSES, GET, SET, POLL
from pyubx2.ubxtypes_get import UBX_PAYLOADS_GET
from pyubx2.ubxtypes_set import UBX_PAYLOADS_SET
from pyubx2.ubxtypes_poll import UBX_PAYLOADS_POLL

TABLES = {GET: UBX_PAYLOADS_GET, SET: UBX_PAYLOADS_SET, POLL: UBX_PAYLOADS_POLL}
MODENAME = {GET: "GET", SET: "SET", POLL: "POLL"}

# variant definitions: name -> (base message name, pin) where pin fixes what the selector looks at
#   ("len", n)  payload length must be n;  ("lenne", [n…]) must differ;  ("byte", pos, val) / ("bytene", pos, [vals])
VARIANT_PINS = {
    (POLL, "CFG-TP5-TPX"): ("CFG-TP5", ("len", 1)),
    (POLL, "CFG-TP5"): ("CFG-TP5", ("lenne", [1])),
    (SET, "RXM-PMREQ"): ("RXM-PMREQ", ("len", 16)),
    (SET, "RXM-PMREQ-S"): ("RXM-PMREQ", ("lenne", [16])),
    (SET, "RXM-PMP-V0"): ("RXM-PMP", ("byte", 0, 0)),
    (SET, "RXM-PMP-V1"): ("RXM-PMP", ("bytene", 0, [0])),
    (GET, "RXM-RLM-S"): ("RXM-RLM", ("byte", 1, 1)),
    (GET, "RXM-RLM-L"): ("RXM-RLM", ("bytene", 1, [1])),
    (GET, "CFG-NMEAvX"): ("CFG-NMEA", ("len", 4)),
    (GET, "CFG-NMEAv0"): ("CFG-NMEA", ("len", 12)),
    (GET, "CFG-NMEA"): ("CFG-NMEA", ("lenne", [4, 12])),
    (GET, "NAV-AOPSTATUS-L"): ("NAV-AOPSTATUS", ("len", 20)),
    (GET, "NAV-AOPSTATUS"): ("NAV-AOPSTATUS", ("lenne", [20])),
    (GET, "NAV-RELPOSNED-V0"): ("NAV-RELPOSNED", ("byte", 0, 0)),
    (GET, "NAV-RELPOSNED"): ("NAV-RELPOSNED", ("bytene", 0, [0])),
    (SET, "TIM-VCOCAL-V0"): ("TIM-VCOCAL", ("byte", 0, 0)),
    (SET, "TIM-VCOCAL"): ("TIM-VCOCAL", ("bytene", 0, [0])),
    (SET, "CFG-DAT-NUM"): ("CFG-DAT", ("len", 2)),
    (SET, "CFG-DAT"): ("CFG-DAT", ("lenne", [2])),
    (GET, "SEC-SIG-V1"): ("SEC-SIG", ("byte", 0, 1)),
    (GET, "SEC-SIG-V2"): ("SEC-SIG", ("bytene", 0, [1])),
    (GET, "AID-ALPSRV-SEND"): ("AID-ALPSRV", ("byte", 1, 0xFF)),
    (GET, "AID-ALPSRV-REQ"): ("AID-ALPSRV", ("bytene", 1, [0xFF])),
}


def name2ids():
    out = {}
    for k, v in UBX_MSGIDS.items():
        out.setdefault(v, k)
    return out


def catalogue():
    """list of dicts: mode, name, defn, cls, id, pin (or None), reachable"""
    n2i = name2ids()
    cat = []
    for mode, tbl in TABLES.items():
        for name, d in tbl.items():
            base, pin = VARIANT_PINS.get((mode, name), (name, None))
            key = n2i.get(base)
            ent = dict(mode=mode, name=name, defn=d, pin=pin, cls=None, id=None, reachable=False)
            if key is not None:
                ent["cls"], ent["id"] = key[0:1], key[1:2]
                if len(key) == 3:  # MGA: third byte is the 'type' discriminator = payload[0]
                    ent["pin"] = ("byte", 0, key[2])
                ent["reachable"] = True
            cat.append(ent)
    return cat
