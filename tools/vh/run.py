"""check runner:  python -m vh.run <ID> [quick|thorough] [--replay path]

Steps (DESIGN.md §6): translate → lake build (property obligations + driver) → axiom audit →
correspondence for the property's observables → direct oracle on the real code → verdict → evidence.
Exit codes: 0 held / only known findings; 1 violation (a VIOLATION line is printed); 2 infrastructure failure.
"""
import contextlib, fcntl, hashlib, json, os, random, re, subprocess, sys, time, traceback

VERIF = os.path.dirname(os.path.dirname(os.path.dirname(os.path.abspath(__file__))))
LEAN = os.path.join(VERIF, "lean")
WORK = os.path.join(VERIF, "work")
REPO_SRC = os.environ.get("PYUBX2_SRC", "/repo/src")
sys.path.insert(0, REPO_SRC)
sys.path.insert(0, os.path.join(VERIF, "tools"))

ALLOWED_AXIOMS = {"propext", "Classical.choice", "Quot.sound"}
FORBIDDEN = re.compile(r"\b(sorry|admit|native_decide|bv_decide|implemented_by|unsafe)\b|^\s*axiom\s|maxHeartbeats\s+0\b")


def log(*a):
    print(*a, flush=True)


def sh(cmd, cwd=None, timeout=3600):
    p = subprocess.run(cmd, cwd=cwd, stdout=subprocess.PIPE, stderr=subprocess.STDOUT, timeout=timeout, text=True)
    return p.returncode, p.stdout


@contextlib.contextmanager
def build_lock():
    os.makedirs(WORK, exist_ok=True)
    with open(os.path.join(WORK, "build.lock"), "w") as f:
        fcntl.flock(f, fcntl.LOCK_EX)
        try:
            yield
        finally:
            fcntl.flock(f, fcntl.LOCK_UN)


def load_obligations():
    return json.load(open(os.path.join(VERIF, "tools", "obligations.json")))


def strip_comments(text):
    text = re.sub(r"/-.*?-/", "", text, flags=re.S)
    return re.sub(r"--.*", "", text)


def forbidden_tokens():
    hits = []
    for root, _, files in os.walk(os.path.join(LEAN, "Ubx")):
        for fn in files:
            if fn.endswith(".lean"):
                p = os.path.join(root, fn)
                for i, line in enumerate(strip_comments(open(p).read()).split("\n")):
                    if FORBIDDEN.search(line):
                        hits.append(f"{os.path.relpath(p, LEAN)}:{i + 1}: {line.strip()[:80]}")
    p = os.path.join(LEAN, "Main.lean")
    for i, line in enumerate(strip_comments(open(p).read()).split("\n")):
        if re.search(r"\b(sorry|admit|native_decide|implemented_by)\b", line):
            hits.append(f"Main.lean:{i + 1}: {line.strip()[:80]}")
    return hits


def enclosing_theorem(path, lineno):
    name = None
    try:
        for i, line in enumerate(open(path).read().split("\n")):
            if i + 1 > lineno:
                break
            m = re.match(r"\s*(?:private\s+)?(?:theorem|lemma|def|example|instance)\s+([A-Za-z0-9_.']+)?", line)
            if m:
                name = m.group(1) or f"example@{i + 1}"
    except OSError:
        pass
    return name


def build_and_audit(pid, tier="quick"):
    """returns dict(translate_ok, build_ok, broken=[…], theorems={name: axioms}, log=…)"""
    obl = load_obligations().get(pid, {"modules": [], "theorems": []})
    res = dict(translate_ok=False, build_ok=False, broken=[], theorems={}, missing=[], bad_axioms=[],
               forbidden=[], driver_ok=False, log="", shape_changed=[], notes=[])
    with build_lock():
        rc, out = sh(["/venv/bin/python", os.path.join(VERIF, "tools", "translate.py")])
        res["log"] += out
        res["translate_ok"] = rc == 0
        if rc != 0:
            return res
        rc2, out2 = sh(["/venv/bin/python", os.path.join(VERIF, "tools", "translate_code.py")])
        res["log"] += out2
        res["code_translate_ok"] = rc2 == 0
        facts = json.load(open(os.path.join(WORK, "facts.json")))
        res["shape_changed"] = facts.get("shape_changed", [])
        res["notes"] = facts.get("notes", [])
        rc, out = sh(["lake", "build", "driver"], cwd=LEAN)
        res["driver_ok"] = rc == 0 and os.access(os.path.join(LEAN, ".lake", "build", "bin", "driver"), os.X_OK)
        if rc != 0:
            res["log"] += out[-4000:]
        mods = obl["modules"]
        if mods:
            rc, out = sh(["lake", "build"] + mods, cwd=LEAN)
            res["build_ok"] = rc == 0
            if rc != 0:
                res["log"] += out[-6000:]
                for m in re.finditer(r"error: (\S+\.lean):(\d+):(\d+): (.*)", out):
                    path = os.path.join(LEAN, m.group(1))
                    th = enclosing_theorem(path, int(m.group(2)))
                    res["broken"].append(dict(file=m.group(1), line=int(m.group(2)), theorem=th, msg=m.group(4)[:200]))
        else:
            res["build_ok"] = True
        # axiom audit of the property theorems that built
        if res["build_ok"] and obl["theorems"]:
            aud = os.path.join(WORK, f"Audit_{pid}.lean")
            with open(aud, "w") as f:
                for m in mods:
                    f.write(f"import {m}\n")
                for t in obl["theorems"]:
                    f.write(f"#print axioms {t}\n")
            rc, out = sh(["lake", "env", "lean", aud], cwd=LEAN)
            cur = None
            for line in out.split("\n"):
                m = re.match(r"'([^']+)' depends on axioms: \[(.*)", line)
                if m:
                    cur = m.group(1)
                    res["theorems"][cur] = [a.strip() for a in m.group(2).rstrip("]").split(",") if a.strip()]
                    if not line.rstrip().endswith("]"):
                        continue
                    cur = None
                    continue
                m = re.match(r"'([^']+)' does not depend on any axioms", line)
                if m:
                    res["theorems"][m.group(1)] = []
                    continue
                if cur and line.strip():
                    res["theorems"][cur] += [a.strip() for a in line.strip().rstrip("]").split(",") if a.strip()]
                    if line.rstrip().endswith("]"):
                        cur = None
            short = {t.split(".")[-1]: t for t in obl["theorems"]}
            found = {k.split(".")[-1] for k in res["theorems"]}
            res["missing"] = [t for s, t in short.items() if s not in found]
            for t, axs in res["theorems"].items():
                extra = [a for a in axs if a not in ALLOWED_AXIOMS]
                if extra:
                    res["bad_axioms"].append((t, extra))
            if rc != 0 and not res["missing"]:
                res["missing"] = ["audit-run-failed"]
        # code tie: the functions as written (Generated/Code.lean) compute the hand model — extra obligations, see code_tie.json
        tie = json.load(open(os.path.join(VERIF, "tools", "code_tie.json"))).get(pid)
        res["code_tie"] = None
        if tie:
            ct = dict(theorems=tie["theorems"], proved=[], broken=[], untranslatable={})
            try:
                ct["untranslatable"] = json.load(open(os.path.join(WORK, "code_facts.json"))).get("untranslatable", {})
            except OSError:
                pass
            # modules are built one by one: a module that no longer builds takes only its own theorems with it
            built = []
            for m_ in tie["modules"]:
                rc, out = sh(["lake", "build", m_], cwd=LEAN, timeout=3000)
                if rc == 0:
                    built.append(m_)
                else:
                    ct.setdefault("log", "")
                    ct["log"] += out[-800:]
            flat = ""
            if built:
                aud = os.path.join(WORK, f"AuditTie_{pid}.lean")
                with open(aud, "w") as f:
                    for m_ in built:
                        f.write(f"import {m_}\n")
                    for t in tie["theorems"]:
                        f.write(f"#print axioms {t}\n")
                rc, out = sh(["lake", "env", "lean", aud], cwd=LEAN)
                flat = out.replace("\n", " ")
            for t in tie["theorems"]:
                m = re.search(r"'" + re.escape(t) + r"' (depends on axioms: \[([^\]]*)\]|does not depend on any axioms)", flat)
                if m and all(a.strip() in ALLOWED_AXIOMS for a in (m.group(2) or "").split(",") if a.strip()):
                    ct["proved"].append(t)
                else:
                    ct["broken"].append(t)
            res["code_tie"] = ct
        res["forbidden"] = forbidden_tokens()
        # thorough tier: independent re-check of the compiled property modules
        res["leanchecker"] = None
        if tier == "thorough" and res["build_ok"] and mods:
            rc, out = sh(["lake", "env", "leanchecker"] + mods, cwd=LEAN, timeout=3000)
            res["leanchecker"] = "ok" if rc == 0 else "FAILED: " + out[-500:]
            if rc != 0:
                res["missing"].append("leanchecker rejected " + " ".join(mods))
    return res


def load_known():
    known, fixed = [], []
    p = os.path.join(VERIF, "KNOWN_FINDINGS.txt")
    if os.path.exists(p):
        for line in open(p):
            line = line.strip()
            if line.startswith("known:"):
                m = re.match(r"known:\s+property=(\S+)\s+key=(\S+)\s*(.*)", line)
                if m:
                    known.append((m.group(1), m.group(2), m.group(3)))
            elif line.startswith("fixed:"):
                fixed.append(line)
    return known, fixed


def main():
    args = sys.argv[1:]
    if not args:
        print(__doc__)
        return 2
    pid = args[0]
    tier = os.environ.get("VERIF_TIER") or (args[1] if len(args) > 1 and not args[1].startswith("--") else "quick")
    seed = int(os.environ.get("VERIF_SEED", "0") or 0)
    t0 = time.time()
    from vh import props, corr, driver
    if "--replay" in args:
        path = args[args.index("--replay") + 1]
        return props.replay(pid, path)
    if pid not in props.CHECKS:
        log(f"unknown property {pid}")
        return 2
    try:
        b = build_and_audit(pid, tier)
    except subprocess.TimeoutExpired:
        log("build timed out")
        return 2
    if not b["translate_ok"] or not b["driver_ok"]:
        log(b["log"][-3000:])
        log("infrastructure failure: translator or driver build failed")
        # a table edit can break the *driver* build only through Tables.lean not elaborating: treat as obligation failure
        if not b["translate_ok"]:
            return 2
    facts = json.load(open(os.path.join(WORK, "facts.json")))
    ctx = props.Ctx(pid=pid, tier=tier, seed=seed, facts=facts, build=b)
    ct = b.get("code_tie")
    if ct and ct["broken"]:
        log(f"code tie: {len(ct['broken'])} equivalence theorem(s) between the code as written and the model no longer check "
            f"({', '.join(ct['broken'])}); not an alarm by itself — the correspondence check runs at the thorough budget")
        ctx.escalated = True
    # wall-clock watchdog: a check that cannot complete is not a passing check. On the unchanged tree every check ends
    # in seconds to minutes; if the implementation has been changed so that a call never returns, the alarm interrupts
    # it and the traceback (which then passes through the library) is reported as a violation below.
    import signal

    class WallClock(BaseException):
        """not an Exception: the library's own `except (OSError, TimeoutError)` clauses must not swallow the watchdog"""

    def _alarm(signum, frame):
        raise WallClock(f"check {pid} did not complete within its wall-clock limit")
    limit = int(os.environ.get("VERIF_WALL_LIMIT", "10800" if tier == "thorough" else "1500"))
    try:
        signal.signal(signal.SIGALRM, _alarm)
        signal.setitimer(signal.ITIMER_REAL, limit, 5)      # fires again every 5 s should a bare `except:` swallow it
    except (ValueError, AttributeError):
        pass
    try:
        result = props.CHECKS[pid](ctx)
        # thorough: further rounds under derived seeds (every random choice differs; the exhaustive parts repeat), merged.
        # Rounds stop early once something has been found: one violation is enough to report.
        rounds = int(os.environ.get("VERIF_THOROUGH_ROUNDS", "3")) if tier == "thorough" else 1
        known0 = {(p_, k_) for p_, k_, _w in load_known()[0]}
        for rnd in range(1, rounds):
            if result.diffs or any((pid, f["key"]) not in known0 for f in result.findings):
                break
            ctx2 = props.Ctx(pid=pid, tier=tier, seed=f"{seed}/round{rnd}", facts=facts, build=b)
            ctx2.escalated = ctx.escalated
            r2 = props.CHECKS[pid](ctx2)
            seen_keys = {f["key"] for f in result.findings}
            result.findings += [f for f in r2.findings if f["key"] not in seen_keys or (pid, f["key"]) not in known0]
            result.diffs += r2.diffs
            for k, v in r2.coverage.items():
                if isinstance(v, (int, float)) and not isinstance(v, bool) and k != "distinct_nontrivial":
                    result.coverage[k] = result.coverage.get(k, 0) + v
            result.coverage["distinct_nontrivial"] = max(result.coverage.get("distinct_nontrivial", 0), r2.coverage.get("distinct_nontrivial", 0))
            result.coverage["rounds"] = rnd + 1
        signal.setitimer(signal.ITIMER_REAL, 0)
    except (Exception, WallClock):
        signal.setitimer(signal.ITIMER_REAL, 0)
        tb = traceback.format_exc()
        log(tb)
        # an exception that travelled through the library under test (or the parsers it delegates to) is behaviour of
        # the code, not of the harness: the property is no longer shown to hold on this tree
        frames = traceback.extract_tb(sys.exc_info()[2])
        through_lib = any(os.path.realpath(f.filename).startswith(os.path.realpath(REPO_SRC)) or "/pynmeagps/" in f.filename
                          or "/pyrtcm/" in f.filename for f in frames)
        if through_lib:
            os.makedirs(os.path.join(VERIF, "replays"), exist_ok=True)
            h = hashlib.sha256((pid + tb).encode()).hexdigest()[:10]
            path = os.path.join(VERIF, "replays", f"{pid}-{h}.json")
            json.dump(dict(property=pid, kind="no-failing-input-found",
                           broken_correspondence=["the harness could not complete: an exception escaped from the implementation "
                                                  "where the unchanged code raises none"],
                           traceback=tb[-4000:], seed=seed, tier=tier), open(path, "w"), indent=1)
            log(f"VIOLATION property={pid} replay={path} no-failing-input-found")
            return 1
        log("harness crashed")
        return 2
    known, _fixed = load_known()
    kn = {(p, k): w for p, k, w in known}
    violations, knowns = [], []
    for f in result.findings:
        if (pid, f["key"]) in kn:
            knowns.append(f)
        else:
            violations.append(f)
    # broken proof obligations / correspondence without a concrete failing input
    obl_broken = []
    if not b["build_ok"]:
        obl_broken += [f"theorem {x['theorem']} ({x['file']}:{x['line']}) no longer checks: {x['msg']}" for x in b["broken"]] or ["lake build of the property's modules failed"]
    obl_broken += [f"theorem {t} missing from the axiom audit" for t in b["missing"]]
    obl_broken += [f"theorem {t} depends on non-standard axioms {a}" for t, a in b["bad_axioms"]]
    obl_broken += [f"forbidden token: {h}" for h in b["forbidden"]]
    if not b["driver_ok"]:
        obl_broken.append("model driver does not build against the regenerated tables")
    corr_broken = [f"correspondence {d['op'][:160]} :: impl={d['py'][:200]} model={d['model'][:200]}" for d in result.diffs[:20]]
    seen = set()
    for f in knowns:
        if f["key"] not in seen:
            seen.add(f["key"])
            log(f"KNOWN-FINDING: property={pid} {kn[(pid, f['key'])]} [{f['key']}]")
    rc = 0
    os.makedirs(os.path.join(VERIF, "replays"), exist_ok=True)
    vkeys = set()
    for f in violations:
        if f["key"] in vkeys:
            continue
        vkeys.add(f["key"])
        h = hashlib.sha256((pid + f["key"]).encode()).hexdigest()[:10]
        path = os.path.join(VERIF, "replays", f"{pid}-{h}.json")
        json.dump(dict(property=pid, key=f["key"], what=f["what"], input=f.get("input"), kind="failing-input",
                       seed=seed, tier=tier), open(path, "w"), indent=1)
        log(f"VIOLATION property={pid} replay={path}")
        rc = 1
    if not violations and (obl_broken or corr_broken):
        h = hashlib.sha256((pid + "|".join(obl_broken + corr_broken)).encode()).hexdigest()[:10]
        path = os.path.join(VERIF, "replays", f"{pid}-{h}.json")
        json.dump(dict(property=pid, kind="no-failing-input-found", broken_obligations=obl_broken,
                       broken_correspondence=corr_broken, build_log_tail=b["log"][-3000:], seed=seed, tier=tier),
                  open(path, "w"), indent=1)
        log(f"VIOLATION property={pid} replay={path} no-failing-input-found")
        rc = 1
    # evidence
    obl = load_obligations().get(pid, {"modules": [], "theorems": []})
    n_obl = len(obl["theorems"])
    discharged = len([t for t in obl["theorems"] if any(k.split(".")[-1] == t.split(".")[-1] for k in b["theorems"])
                      and not any(t.split(".")[-1] == bt.split(".")[-1] for bt, _ in b["bad_axioms"])]) if b["build_ok"] else 0
    cov = dict(result.coverage)
    cov.update(dict(
        obligations=max(n_obl, 1), discharged=discharged if n_obl else 0,
        checker_cmd="cd lean && lake build " + " ".join(obl["modules"]) + " && lake env lean ../work/Audit_%s.lean  # #print axioms" % pid,
        trusted_base=["Lean 4.33.0 kernel", "axioms: propext, Classical.choice, Quot.sound only (audited per theorem)",
                      "tools/translate.py (tables → Lean; dump round-trip checked)",
                      "correspondence harness tools/vh (differential; coverage as counted here)",
                      "CPython bytes/int/float/struct semantics; pynmeagps/pyrtcm parsers as uninterpreted verdicts"],
        theorems={k: v for k, v in b["theorems"].items()},
        correspondence_diffs=len(result.diffs),
        not_compared=dict(skipped_large=corr.skipped_large, model_timeouts=driver.model_timeouts),
        leanchecker=b.get("leanchecker"),
        shape_changed=b["shape_changed"],
        code_tie=(dict(theorems=len(b["code_tie"]["theorems"]), proved=b["code_tie"]["proved"], broken=b["code_tie"]["broken"],
                       untranslatable=b["code_tie"]["untranslatable"]) if b.get("code_tie") else None),
    ))
    ev = dict(property_id=pid, tier=tier, seed=seed, level="proof", coverage=cov,
              assumptions=result.assumptions, wall_s=round(time.time() - t0, 2),
              violations=len(vkeys) + (1 if (not violations and (obl_broken or corr_broken)) else 0))
    os.makedirs(os.path.join(VERIF, "evidence"), exist_ok=True)
    json.dump(ev, open(os.path.join(VERIF, "evidence", f"{pid}.json"), "w"), indent=1, default=str)
    log(f"{pid} {tier}: obligations {discharged}/{n_obl}, ops {cov.get('evaluations')}, diffs {len(result.diffs)}, "
        f"known {len(seen)}, violations {len(vkeys)}, {ev['wall_s']}s -> exit {rc}")
    return rc


if __name__ == "__main__":
    sys.exit(main())
