"""Generators: value trees laid out according to a payload definition (with the attribute list the
definition prescribes, computed independently of pyubx2's walker), keyword sets, frames, streams."""
import random, struct
from pyubx2.ubxtypes_core import GET, SET, POLL
import pyubx2.ubxtypes_configdb as ubc
from pyubx2.ubxhelpers import calc_checksum

BITTYPES = ("X001", "X002", "X004", "X006", "X008", "X024")


def frame(cls, mid, payload):
    body = cls + mid + len(payload).to_bytes(2, "little") + payload
    return b"\xb5\x62" + body + calc_checksum(body)


def tsize(t):
    return int(t[1:4])


def rand_uint(rng, nbits):
    if nbits == 0:
        return 0
    c = rng.random()
    top = (1 << nbits) - 1
    if c < 0.12:
        return 0
    if c < 0.2:
        return 1
    if c < 0.3:
        return top
    if c < 0.38:
        return 1 << (nbits - 1)
    if c < 0.44:
        return (1 << (nbits - 1)) - 1
    return rng.getrandbits(nbits)


def rand_bytes(rng, n):
    c = rng.random()
    if c < 0.1:
        return bytes(n)
    if c < 0.2:
        return b"\xff" * n
    if c < 0.45:
        return bytes(rng.choice(b"ABCxyz019 _-$\n*,") for _ in range(n))
    return bytes(rng.getrandbits(8) for _ in range(n))


class Layout:
    """accumulates payload bytes and the expected attribute dictionaries for both bitfield views"""

    def __init__(self):
        self.payload = b""
        self.attrs = {1: {}, 0: {}}   # parsebitfield -> ordered dict name -> value
        self.raw = {}                 # rendered name -> raw integer (for keyword round trips)
        self.fields = []              # (rendered name, type, scale, offset, raw bytes, kind)
        self.names = {}               # rendered name -> (base, idx)

    def setattr(self, name, val, views=(0, 1)):
        for v in views:
            self.attrs[v][name] = val


def suffix(idx):
    return "".join(f"_{i:02d}" for i in idx)


def decode_plain(t, b):
    L = t[0]
    if t == "CH":
        return b.decode("utf-8", "backslashreplace")
    if L in "XC":
        return b
    if L in "EILU":
        return int.from_bytes(b, "little", signed=(L == "I"))
    if L == "R":
        return struct.unpack("<f" if tsize(t) == 4 else "<d", b)[0]
    if L == "A":
        return list(b)
    raise ValueError(t)


def gen_attr(rng, lay, name, t, scale, idx, forced=None, total_len=None):
    """lay out one attribute; `forced` = raw unsigned integer value to use"""
    rn = name + suffix(idx)
    lay.names[rn] = (name, list(idx))
    if t == "CH":
        b = rand_bytes(rng, rng.choice([0, 1, 5, 30]))
    else:
        n = tsize(t)
        L = t[0]
        if forced is not None and L in "EILUX":
            b = forced.to_bytes(n, "little")
        elif L in "EILU":
            b = rand_uint(rng, 8 * n).to_bytes(n, "little")
        elif L == "R":
            c = rng.random()
            if c < 0.5:
                x = rng.choice([0.0, -0.0, 1.0, -1.5, 3.141592653589793, 1e-7, 6378137.0, 1e300 if n == 8 else 1e30, float("inf"), float("-inf")])
                b = struct.pack("<f" if n == 4 else "<d", x)
            else:
                b = bytes(rng.getrandbits(8) for _ in range(n))
        else:
            b = rand_bytes(rng, n)
    off = len(lay.payload)
    lay.payload += b
    val = decode_plain(t, b)
    if scale is not None and scale != 1:
        val = round(val * scale, 12)
    lay.fields.append((rn, t, scale, off, b, "attr"))
    if rn[0:3] == "_HP":
        tgt = rn[3:]
        for v in (0, 1):
            lay.attrs[v][tgt] = round(lay.attrs[v][tgt] + val, 12)
    else:
        lay.setattr(rn, val)
    return b


def gen_bits(rng, lay, name, t, flags, idx, forced_flags=None):
    n = tsize(t)
    off = 0
    word = 0
    vals = []
    for k, kt in flags.items():
        w = tsize(kt)
        v = (forced_flags or {}).get(k)
        if v is None:
            v = rand_uint(rng, w)
        word |= v << off
        vals.append((k, v, w))
        off += w
    # bits above the declared flags are random too: they must not leak into any flag
    if off < 8 * n and rng.random() < 0.5:
        word |= rng.getrandbits(8 * n - off) << off
    word &= (1 << (8 * n)) - 1
    b = word.to_bytes(n, "little")
    lay.fields.append((name + suffix(idx), t, None, len(lay.payload), b, "bits"))
    lay.payload += b
    for k, v, w in vals:
        lay.names[k + suffix(idx)] = (k, list(idx))
        if k[0:8] != "reserved":
            lay.setattr(k + suffix(idx), v, views=(1,))
    lay.names[name + suffix(idx)] = (name, list(idx))
    lay.setattr(name + suffix(idx), b, views=(0,))


def count_sources(defn):
    """names of attributes / flags used as group counts (anywhere in the definition)"""
    out = set()

    def walk(d):
        for k, v in d.items():
            if isinstance(v, tuple) and v[0] not in BITTYPES:
                if isinstance(v[0], str) and v[0] != "None":
                    out.add(v[0])
                walk(v[1])
    walk(defn)
    return out


def gen_items(rng, lay, d, idx, counts, esf, depth=0, maxrep=3, forcerep=None):
    for k, v in d.items():
        if isinstance(v, tuple):
            numr, sub = v
            if numr in BITTYPES:
                forced = {f: counts[f] for f in sub if f in counts and not idx}
                gen_bits(rng, lay, k, numr, sub, idx, forced)
            else:
                if isinstance(numr, int):
                    n = numr
                elif numr == "None":
                    n = rng.choice([0, 1, 1, 2, 3, maxrep]) if forcerep is None else forcerep
                else:
                    n = counts[numr]
                    if esf and counts.get("calibTtagValid"):
                        n += 1
                for i in range(n):
                    gen_items(rng, lay, sub, idx + [i + 1], counts, esf, depth + 1, maxrep, forcerep)
        elif isinstance(v, list):
            gen_attr(rng, lay, k, v[0], v[1], idx, counts.get(k) if not idx else None)
        else:
            gen_attr(rng, lay, k, v, None, idx, counts.get(k) if not idx else None)


def find_width(defn, name):
    """bit width available for a count source (attribute or flag) at top level"""
    for k, v in defn.items():
        if k == name and isinstance(v, str) and v[0] in "EILU":
            return 8 * tsize(v)
        if isinstance(v, tuple) and v[0] in BITTYPES and name in v[1]:
            return tsize(v[1][name])
    return None


KNOWN_KEY_IDS = sorted(set(v[0] for v in ubc.UBX_CONFIG_DATABASE.values()))


def unknown_key(rng):
    """an undocumented key id with a valid size code in its top hex digit"""
    known = set(v[0] for v in ubc.UBX_CONFIG_DATABASE.values())
    while True:
        if rng.random() < 0.4:
            # a neighbour of a documented key: one or two bits away (reserved bits, group, item), same size code
            k = rng.choice(KNOWN_KEY_IDS) ^ (1 << rng.randrange(28))
            if rng.random() < 0.3:
                k ^= 1 << rng.randrange(28)
        else:
            code = rng.choice([1, 2, 3, 4, 5])
            k = (code << 28) | rng.getrandbits(28)
        if k not in known:
            return k


def cfgval_layout(rng, ent, maxrep=3):
    """CFG-VALGET (GET) / CFG-VALSET (SET): header attributes, then distinct key/value items"""
    d = ent["defn"]
    lay = Layout()
    hdr = {k: v for k, v in d.items() if not (isinstance(v, tuple) and v[0] not in BITTYPES)}
    gen_items(rng, lay, hdr, [], {}, False)
    names = list(ubc.UBX_CONFIG_DATABASE)
    n = rng.choice([0, 1, 2, 3, maxrep])
    used = set()
    lay.cfgitems = []
    for _ in range(n):
        if rng.random() < 0.25:
            kid = unknown_key(rng)
            ty = "X%03d" % ubc.UBX_CONFIG_STORSIZE[kid >> 28]
            name = "CFG_" + hex(kid)
        else:
            name = rng.choice(names)
            kid, ty = ubc.UBX_CONFIG_DATABASE[name]
        if kid in used:
            continue
        used.add(kid)
        v = cfg_value(rng, ty)
        lay.payload += kid.to_bytes(4, "little") + cfg_encode(ty, v)
        # first name registered for the id is what the parser reports
        rep = next(k for k, x in ubc.UBX_CONFIG_DATABASE.items() if x[0] == kid) if name[:6] != "CFG_0x" else name
        lay.setattr(rep, v)
        lay.cfgitems.append((name, kid, ty, v))
    return lay


def is_cfgval(ent):
    return ent["cls"] == b"\x06" and ((ent["id"] == b"\x8b" and ent["mode"] == GET) or (ent["id"] == b"\x8a" and ent["mode"] == SET))


def layout(rng, ent, maxrep=3, pin=True, forcerep=None):
    """a random value tree for catalogue entry `ent`, laid out as payload bytes.
    returns Layout or None when the definition's counts cannot be expressed."""
    d = ent["defn"]
    if is_cfgval(ent):
        return cfgval_layout(rng, ent, maxrep)
    counts = {}
    for src in count_sources(d):
        w = find_width(d, src)
        if w is None:
            return None
        counts[src] = min(rng.choice([0, 1, 1, 2, 3, maxrep]) if forcerep is None else forcerep, (1 << w) - 1)
    esf = ent["mode"] == SET and ent["cls"] == b"\x10" and ent["id"] == b"\x02"
    if esf and "calibTtagValid" not in counts:
        counts["calibTtagValid"] = rng.choice([0, 1])
    lay = Layout()
    try:
        gen_items(rng, lay, d, [], counts, esf, 0, maxrep, forcerep)
    except (KeyError, ValueError):
        return None
    if pin and ent.get("pin"):
        p = ent["pin"]
        b = bytearray(lay.payload)
        if p[0] == "byte" and len(b) > p[1] and b[p[1]] != p[2]:
            return relayout_with_byte(rng, ent, p[1], p[2], maxrep)
        if p[0] == "bytene" and len(b) > p[1] and b[p[1]] in p[2]:
            return relayout_with_byte(rng, ent, p[1], (max(p[2]) + 1) % 256, maxrep)
    return lay


def relayout_with_byte(rng, ent, pos, val, maxrep):
    """force the discriminator byte: find the 1-byte top-level attribute at offset `pos`"""
    d = ent["defn"]
    off = 0
    target = None
    for k, v in d.items():
        if isinstance(v, str) and v != "CH":
            if off == pos and tsize(v) == 1:
                target = k
                break
            off += tsize(v)
        else:
            break
    if target is None:
        return None
    for _ in range(4):
        counts = {}
        for src in count_sources(d):
            w = find_width(d, src)
            if w is None:
                return None
            counts[src] = min(rng.choice([0, 1, 1, 2, 3, maxrep]), (1 << w) - 1)
        counts[target] = val
        lay = Layout()
        esf = False
        try:
            gen_items(rng, lay, d, [], counts, esf, 0, maxrep)
        except (KeyError, ValueError):
            return None
        return lay
    return None


# ---- configuration database items

def cfg_value(rng, ty):
    n = tsize(ty)
    L = ty[0]
    if L in "UEL":
        return rand_uint(rng, 8 * n)
    if L == "I":
        v = rand_uint(rng, 8 * n)
        return v - (1 << (8 * n)) if v >= 1 << (8 * n - 1) else v
    if L == "X":
        return rand_bytes(rng, n)
    if L == "R":
        x = rng.choice([0.0, 1.5, -2.25, 1e10, 3.0e-5, 123456.789])
        return struct.unpack("<f", struct.pack("<f", x))[0] if n == 4 else x
    raise ValueError(ty)


def cfg_encode(ty, v):
    n = tsize(ty)
    L = ty[0]
    if L in "UEL":
        return v.to_bytes(n, "little")
    if L == "I":
        return v.to_bytes(n, "little", signed=True)
    if L == "X":
        return v
    if L == "R":
        return struct.pack("<f" if n == 4 else "<d", v)
    raise ValueError(ty)
