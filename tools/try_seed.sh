#!/bin/bash
# usage: tools/try_seed.sh <seed dir with patch.diff [demo.py]> <check ids…|all>
# Applies the seeded change to /repo, runs the given checks (quick, in parallel), and restores /repo.
d="$1"; shift
set -u
cd /repo || exit 2
git diff --quiet || { echo "/repo has local changes"; exit 2; }
if [ -f "$d/demo.py" ]; then
  echo "demo on clean tree:"; PYTHONPATH=/repo/src /venv/bin/python "$d/demo.py" 2>&1 | tail -2; echo "  exit=${PIPESTATUS[0]}"
fi
git apply "$d/patch.diff" || { echo "patch does not apply"; exit 2; }
trap 'git -C /repo checkout -- . ; echo "[/repo restored]"' EXIT
if [ -f "$d/demo.py" ]; then
  echo "demo on changed tree:"; PYTHONPATH=/repo/src /venv/bin/python "$d/demo.py" 2>&1 | tail -2; echo "  exit=${PIPESTATUS[0]}"
fi
if [ "${RUNTESTS:-1}" = 1 ]; then /verif/tools/runtests.sh /repo; fi
cd /verif
ids="$*"
[ "$ids" = all ] && ids="C01 C02 C03 C04 C05 C06 C07 C08 C09 C10 C11 C12 C13 C14 C15 C16 C17 C18"
tmp=$(mktemp -d)
for p in $ids; do
  ( out=$(./check "$p" ${TIER:-quick} 2>&1); rc=$?
    { echo "== $p exit=$rc :: $(echo "$out" | grep -c VIOLATION) violation line(s) :: $(echo "$out" | tail -1)"
      echo "$out" | grep VIOLATION | head -3; } > "$tmp/$p.out" ) &
done
wait
cat "$tmp"/*.out | grep -v "exit=0 :: 0 violation" ; echo "(clean: $(cat "$tmp"/*.out | grep -c 'exit=0 :: 0 violation'))"
rm -rf "$tmp"
