#!/bin/bash
# usage: tools/try_seed.sh <seed dir with patch.diff [demo.py]> <check ids…>
# Applies the seeded change to /repo, runs the given checks (quick), and restores /repo.
d="$1"; shift
set -u
cd /repo || exit 2
git diff --quiet || { echo "/repo has local changes"; exit 2; }
if [ -f "$d/demo.py" ]; then
  echo "demo on clean tree:"; PYTHONPATH=/repo/src /venv/bin/python "$d/demo.py" 2>&1 | tail -2; echo "  exit=$?"
fi
git apply "$d/patch.diff" || { echo "patch does not apply"; exit 2; }
trap 'git -C /repo checkout -- . ; echo "[/repo restored]"' EXIT
if [ -f "$d/demo.py" ]; then
  echo "demo on changed tree:"; PYTHONPATH=/repo/src /venv/bin/python "$d/demo.py" 2>&1 | tail -2; echo "  exit=${PIPESTATUS[0]}"
fi
if [ "${RUNTESTS:-1}" = 1 ]; then /verif/tools/runtests.sh /repo; fi
cd /verif
for p in "$@"; do
  out=$(./check "$p" quick 2>&1); rc=$?
  echo "== $p exit=$rc :: $(echo "$out" | grep -c VIOLATION) violation line(s) :: $(echo "$out" | tail -1)"
  echo "$out" | grep VIOLATION | head -3
done
rm -f /verif/replays/*.json.keep 2>/dev/null
