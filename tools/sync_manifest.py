#!/usr/bin/env python3
"""Rewrite the `level_claimed.text` of every MANIFEST.json entry from tools/code_tie.json, so that the sentence about the
translated-and-proved part of the code names what is tied *now* (functions per property below, theorem count from the file)."""
import json, os
V = os.path.dirname(os.path.dirname(os.path.abspath(__file__)))
WHAT = {
 "C01": "UBXReader.parse, _do_len_checksum / serialize / the read-only getters, the identity property",
 "C02": "the whole parse-side constructor path — __init__'s callee _do_attributes, _get_dict and the 12 variant selectors, the attribute walker (_set_attribute, _set_attribute_group, _set_attribute_single, _calc_num_repeats; also interpreted together, rec_item / do_attributes_rec), _set_attribute_bits / _set_attribute_bitfield, bytes2val",
 "C03": "the whole generate-side constructor path — _do_attributes, _get_dict and the 12 variant selectors, the attribute walker (per method and interpreted together), _set_attribute_bits / _set_attribute_bitfield, val2bytes",
 "C04": "__init__ (three addressing forms), _do_attributes, msgstr2bytes / msgclass2bytes / key_from_val, _do_len_checksum, serialize, calc_checksum",
 "C05": "calc_checksum, isvalid_checksum, UBXReader.parse",
 "C06": "UBXReader.read / _parse_ubx / _parse_nmea / _parse_rtcm3 / _do_error / __next__ and the byte sources, up to the whole iteration (drain_runP)",
 "C07": "UBXReader.read / _parse_* / _do_error / __next__ and the byte sources, up to the whole iteration (drain_runP)",
 "C08": "UBXReader.parse, UBXReader.read / _parse_* / _do_error / __next__ and the byte sources",
 "C09": "UBXReader.read / _parse_* / _do_error / __next__ and the byte sources",
 "C10": "UBXReader.read / __next__ and SocketWrapper._recv / read / readline",
 "C11": "UBXReader.read / _parse_* / __next__ (protfilter / parsing tests as written)",
 "C12": "UBXReader.read's except clauses, _do_error, __next__",
 "C13": "__init__ (the _immutable flag), __setattr__, __delattr__",
 "C14": "UBXMessage.config_set / config_del / config_poll, _set_attribute_cfgval, cfgname2key",
 "C15": "_set_attribute_single, _do_attributes (exception translation), _set_attribute_bits / _set_attribute_bitfield (range checks), val2bytes",
 "C16": "_get_dict (for every class / id / mode of the shipped tables) and the identity property",
 "C17": "getinputmode, UBXReader.parse",
 "C18": "calc_checksum, isvalid_checksum, protocol, get_bits, bytes2val, val2bytes, _calc_num_repeats",
}
tie = json.load(open(os.path.join(V, "tools", "code_tie.json")))
mp = os.path.join(V, "MANIFEST.json")
m = json.load(open(mp))
for c in m["checks"]:
    pid = c["property_id"]
    n = len(tie.get(pid, {}).get("theorems", []))
    assert n > 0, pid
    c["level_claimed"]["text"] = (
        "Lean 4 theorems about a hand-written executable model of the control code over tables regenerated from the working tree; "
        f"for {WHAT[pid]} the code as written is translated (Python AST -> PyLite syntax, regenerated every run) and proved equal "
        f"to the model in Lean ({n} equivalence theorems, tools/code_tie.json, DESIGN.md §12-14); the rest of the model is tied to the code "
        f"by a differential correspondence check, and a direct oracle searches the implementation for a failing input (see DESIGN.md §7 {pid})")
json.dump(m, open(mp, "w"), indent=1, ensure_ascii=False)
print("MANIFEST.json level texts refreshed for", len(m["checks"]), "checks")
