#!/venv/bin/python
"""
Translate the data tables and "control facts that are data in disguise" of the pyubx2 working
tree (/repo/src) into Lean:  lean/Ubx/Generated/Tables.lean  (+ work/facts.json for the harness).

Run on every check before `lake build`; the file is rewritten only when its content changes.
Trusted component (see DESIGN.md §3): it must print the Python tables faithfully. The harness
re-reads the tables through the driver (`dump` ops) and compares them with the live objects.
"""
import ast, hashlib, inspect, json, os, struct, sys

VERIF = os.path.dirname(os.path.dirname(os.path.abspath(__file__)))
REPO_SRC = os.environ.get("PYUBX2_SRC", "/repo/src")
sys.path.insert(0, REPO_SRC)

OUT = os.path.join(VERIF, "lean", "Ubx", "Generated", "Tables.lean")
FACTS = os.path.join(VERIF, "work", "facts.json")

EXC_MAP = {
    "AttributeError": "attributeE", "IndexError": "indexE", "error": "structE", "struct.error": "structE",
    "TypeError": "typeE", "ValueError": "valueE", "OverflowError": "overflowE", "KeyError": "keyE",
    "ZeroDivisionError": "zeroDivE", "UnboundLocalError": "unboundLocalE",
    "UBXParseError": "ubxParse", "UBXMessageError": "ubxMessage", "UBXTypeError": "ubxType",
    "UBXStreamError": "ubxStream",
}
SELECTORS = {
    "get_cfgtp5_dict": "cfgtp5", "get_mga_dict": "mga", "get_rxmpmreq_dict": "rxmpmreq",
    "get_rxmpmp_dict": "rxmpmp", "get_rxmrlm_dict": "rxmrlm", "get_cfgnmea_dict": "cfgnmea",
    "get_aopstatus_dict": "aopstatus", "get_relposned_dict": "relposned",
    "get_timvcocal_dict": "timvcocal", "get_cfgdat_dict": "cfgdat", "get_secsig_dict": "secsig",
    "get_alpsrv_dict": "alpsrv",
}


def enc(s: str) -> int:
    return int.from_bytes(s.encode("utf-8"), "big")


def nm(s: str) -> str:
    return hex(enc(s)) if s else "0"


def bts(b: bytes) -> str:
    return "[" + ", ".join(hex(x) for x in b) + "]"


def ty(att, notes, where) -> str:
    if not isinstance(att, str):
        notes.append(f"{where}: type is not a string: {att!r}")
        return "(.malformed 0)"
    if att == "CH":
        return ".ch"
    letter = ord(att[0]) if att else 0
    try:
        size = int(att[1:4])
        if size < 0:
            raise ValueError
    except ValueError:
        return f"(.malformed {letter})"
    return f"(.t {letter} {size})"


def scale(sc, notes, where) -> str:
    if isinstance(sc, bool) or not isinstance(sc, (int, float)):
        notes.append(f"{where}: scale factor is not a number: {sc!r}")
        return "(.flt 0)"
    if sc == 1:
        return ".one"
    if isinstance(sc, int):
        return f"(.int ({sc}))"
    bits = struct.unpack("<Q", struct.pack("<d", sc))[0]
    return f"(.flt {hex(bits)})"


def item(name, v, bittypes, notes, where) -> str:
    w = f"{where}.{name}"
    if isinstance(v, tuple) and len(v) == 2 and isinstance(v[1], dict):
        numr, sub = v
        if isinstance(numr, str) and numr in bittypes:
            flags = []
            for k, kt in sub.items():
                if not isinstance(kt, str):
                    notes.append(f"{w}.{k}: flag type is not a string")
                flags.append(f"({nm(k)}, {ty(kt, notes, w + '.' + k)})")
            return f".bits {nm(name)} {ty(numr, notes, w)} [{', '.join(flags)}]"
        if isinstance(numr, bool):
            notes.append(f"{w}: group count is a bool")
            cnt = "(.fixed 0)"
        elif isinstance(numr, int):
            if numr < 0:
                notes.append(f"{w}: negative group count")
            cnt = f"(.fixed {max(numr, 0)})"
        elif numr == "None":
            cnt = ".var"
        elif isinstance(numr, str):
            cnt = f"(.named {nm(numr)})"
        else:
            notes.append(f"{w}: group count of unsupported type {numr!r}")
            cnt = "(.fixed 0)"
        subs = ", ".join(item(k, x, bittypes, notes, w) for k, x in sub.items())
        return f".group {nm(name)} {cnt} [{subs}]"
    if isinstance(v, list):
        if len(v) != 2:
            notes.append(f"{w}: scaled attribute list of length {len(v)}")
            return f".attr {nm(name)} (.malformed 0) .one"
        return f".attr {nm(name)} {ty(v[0], notes, w)} {scale(v[1], notes, w)}"
    if isinstance(v, str):
        return f".attr {nm(name)} {ty(v, notes, w)} .one"
    notes.append(f"{w}: unsupported definition shape {type(v).__name__}")
    return f".attr {nm(name)} (.malformed 0) .one"


def chunked(name, typ, elems, out, size=40):
    parts = []
    for i in range(0, max(len(elems), 1), size):
        pn = f"{name}_c{i // size}"
        out.append(f"def {pn} : {typ} := [\n  " + ",\n  ".join(elems[i:i + size]) + "]")
        parts.append(pn)
    out.append(f"def {name} : {typ} := " + " ++ ".join(parts))


def src_of(mod):
    return open(mod.__file__, newline="").read().replace("\r\n", "\n")


def func_node(tree, qual):
    parts = qual.split(".")
    body = tree.body
    node = None
    for p in parts:
        node = next((n for n in body if isinstance(n, (ast.FunctionDef, ast.ClassDef)) and n.name == p), None)
        if node is None:
            return None
        body = node.body
    return node


def exc_names(handler, module=None):
    """names of the exception classes an `except` clause lists. The clause is evaluated in the module's namespace first
    (so `except _PARSE_ERRORS:` with a module-level tuple, or aliases, resolve to the classes they denote); the syntactic
    reading is the fall-back."""
    t = handler.type
    if module is not None and t is not None:
        try:
            obj = eval(compile(ast.Expression(t), "<except>", "eval"), dict(vars(module)))
            classes = obj if isinstance(obj, tuple) else (obj,)
            if classes and all(isinstance(c, type) and issubclass(c, BaseException) for c in classes):
                return ["struct.error" if (c.__module__ == "struct" and c.__name__ == "error") else c.__name__ for c in classes]
        except Exception:  # noqa
            pass
    elts = t.elts if isinstance(t, ast.Tuple) else [t]
    out = []
    for e in elts:
        if isinstance(e, ast.Attribute):
            out.append(e.attr if e.attr != "error" else "struct.error")
        elif isinstance(e, ast.Name):
            out.append(e.id)
    return out


def main():
    import pyubx2
    import pyubx2.ubxmessage as um
    import pyubx2.ubxreader as ur
    import pyubx2.ubxhelpers as uh
    import pyubx2.ubxvariants as uv
    import pyubx2.ubxtypes_core as ubt
    import pyubx2.ubxtypes_configdb as ubc
    from pyubx2.ubxtypes_get import UBX_PAYLOADS_GET
    from pyubx2.ubxtypes_set import UBX_PAYLOADS_SET
    from pyubx2.ubxtypes_poll import UBX_PAYLOADS_POLL
    import pynmeagps

    assert os.path.realpath(pyubx2.__file__).startswith(os.path.realpath(REPO_SRC)), pyubx2.__file__
    notes = []          # shapes the translator could not represent faithfully
    shape = []          # control facts whose AST no longer has the recognised shape
    facts = {}

    # --- which tuple types denote bitfields (the `numr in (X1, …)` test of _set_attribute)
    mtree = ast.parse(src_of(um))
    bittypes = None
    fn = func_node(mtree, "UBXMessage._set_attribute")
    if fn is not None:
        for n in ast.walk(fn):
            if (isinstance(n, ast.Compare) and len(n.ops) == 1 and isinstance(n.ops[0], ast.In)
                    and isinstance(n.left, ast.Name) and n.left.id == "numr"
                    and isinstance(n.comparators[0], ast.Tuple)):
                try:
                    bittypes = [getattr(ubt, e.id) for e in n.comparators[0].elts]
                except Exception:
                    bittypes = None
    if bittypes is None:
        shape.append("_set_attribute: bitfield type tuple")
        bittypes = [ubt.X1, ubt.X2, ubt.X4, ubt.X6, ubt.X8, ubt.X24]
    facts["bittypes"] = bittypes

    out = ["import Ubx.Model.Types",
           "/-! GENERATED by tools/translate.py from the pyubx2 working tree — do not edit -/",
           "set_option maxRecDepth 100000", "set_option maxHeartbeats 4000000",
           "namespace Ubx.Gen", "open Ubx"]

    # --- payload tables
    for tname, tbl in (("get", UBX_PAYLOADS_GET), ("set", UBX_PAYLOADS_SET), ("poll", UBX_PAYLOADS_POLL)):
        entries = []
        for i, (k, d) in enumerate(tbl.items()):
            if not isinstance(d, dict):
                notes.append(f"{tname}:{k}: definition is not a dict")
                d = {}
            its = ",\n  ".join(item(a, v, bittypes, notes, f"{tname.upper()}:{k}") for a, v in d.items())
            out.append(f"/-- {tname.upper()} {k} -/\ndef {tname}_{i} : Defn := [\n  {its}]")
            entries.append(f"({nm(k)}, {tname}_{i})")
        chunked(f"{tname}Table", "List (Name × Defn)", entries, out)

    # --- ids, classes
    chunked("msgids", "List (Bytes × Name)",
            [f"({bts(k)}, {nm(v)})" for k, v in ubt.UBX_MSGIDS.items()], out)
    chunked("classes", "List (Bytes × Name)",
            [f"({bts(k)}, {nm(v)})" for k, v in ubt.UBX_CLASSES.items()], out)

    # --- variants
    vs = []
    modes = {ubt.GET: ".get", ubt.SET: ".set", ubt.POLL: ".poll"}
    for mode, d in uv.VARIANTS.items():
        for k, f in d.items():
            sel = SELECTORS.get(getattr(f, "__name__", ""), None)
            selx = f".{sel}" if sel else f"(.unknown {nm(getattr(f, '__name__', '?'))})"
            if sel is None:
                shape.append(f"VARIANTS: unknown selector {getattr(f, '__name__', f)}")
            vs.append(f"({modes[mode]}, {bts(k)}, {selx})")
    chunked("variants", "List (Mode × Bytes × Selector)", vs, out)

    # --- config database
    chunked("cfgdb", "List (Name × Nat × Ty)",
            [f"({nm(k)}, {v[0]}, {ty(v[1], notes, 'CFGDB:' + k)})" for k, v in ubc.UBX_CONFIG_DATABASE.items()], out)
    out.append("def storsize : List (Nat × Nat) := [" +
               ", ".join(f"({k}, {v})" for k, v in ubc.UBX_CONFIG_STORSIZE.items()) + "]")

    # --- ATTTYPE
    kinds = {int: ".int", float: ".float", str: ".str", bytes: ".bytes", list: ".list"}
    at = []
    for k, v in ubt.ATTTYPE.items():
        vv = v if isinstance(v, tuple) else (v,)
        ks = []
        for t in vv:
            if t in kinds:
                ks.append(kinds[t])
            else:
                shape.append(f"ATTTYPE[{k}]: unsupported python type {t}")
        at.append(f"({ord(k)}, [{', '.join(ks)}])")
    out.append("def atttype : List (Nat × List Kind) := [" + ", ".join(at) + "]")

    # --- names UBXMessage owns
    UM = um.UBXMessage
    readonly = [n for n in dir(UM) if isinstance(getattr(UM, n, None), property) and getattr(UM, n).fset is None]
    sig = inspect.signature(UM.__init__)
    params = [p for p in sig.parameters if p not in ("self", "kwargs")] + ["payload"]
    probe = UM(b"\x05", b"\x01", 0)
    inst = [n for n in vars(probe)]
    own = sorted(set(dir(UM)) | set(params) | set(inst))
    out.append("def readonly : List Name := [" + ", ".join(nm(n) for n in readonly) + "]")
    chunked("ownNames", "List Name", [nm(n) for n in own], out)
    facts["readonly"] = readonly
    facts["ownNames"] = own

    # --- exception lists
    fn = func_node(mtree, "UBXMessage._do_attributes")
    catch = []
    ok = False
    if fn is not None:
        trys = [n for n in ast.walk(fn) if isinstance(n, ast.Try)]
        if len(trys) == 1:
            ok = True
            for h in trys[0].handlers:
                raised = [r for r in ast.walk(h) if isinstance(r, ast.Raise)]
                if len(raised) == 1 and isinstance(raised[0].exc, ast.Call) and getattr(raised[0].exc.func, "id", "") == "UBXTypeError":
                    catch += exc_names(h, um)
                else:
                    ok = False
    if not ok or any(c not in EXC_MAP for c in catch):
        shape.append("_do_attributes: except clauses")
        catch = ["AttributeError", "IndexError", "struct.error", "TypeError", "ValueError", "OverflowError"]
    out.append("def catchType : List Exc := [" + ", ".join("." + EXC_MAP[c] for c in dict.fromkeys(catch)) + "]")
    facts["catchType"] = catch

    rtree = ast.parse(src_of(ur))
    fn = func_node(rtree, "UBXReader.read")
    rcatch = None
    if fn is not None:
        trys = [n for n in ast.walk(fn) if isinstance(n, ast.Try)]
        if len(trys) == 1 and len(trys[0].handlers) == 2:
            h0, h1 = trys[0].handlers
            if exc_names(h0, ur) == ["EOFError"]:
                rcatch = exc_names(h1, ur)
    if rcatch is None:
        shape.append("read: except clauses")
        rcatch = ["UBXMessageError", "UBXTypeError", "UBXParseError", "UBXStreamError",
                  "NMEAMessageError", "NMEATypeError", "NMEAParseError", "NMEAStreamError",
                  "RTCMMessageError", "RTCMParseError", "RTCMStreamError", "RTCMTypeError"]
    out.append("def readCatch : List Exc := [" +
               ", ".join("." + EXC_MAP[c] for c in rcatch if c in EXC_MAP) + "]")
    facts["readCatch"] = rcatch

    # --- NMEA headers
    hdrs = sorted(pynmeagps.NMEA_HDR)
    if not all(isinstance(h, bytes) and len(h) == 2 and h[0] == 0x24 for h in hdrs):
        shape.append("NMEA_HDR: not a list of 2-byte b'$x' headers")
        hdrs = [b"\x24\x47", b"\x24\x50"]
    out.append("def nmeaHdr2 : List Byte := [" + ", ".join(hex(h[1]) for h in hdrs) + "]")
    facts["nmeaHdr2"] = [h[1] for h in hdrs]

    # --- getinputmode
    htree = ast.parse(src_of(uh))
    fn = func_node(htree, "getinputmode")
    gim = None
    try:
        test = next(n for n in ast.walk(fn) if isinstance(n, ast.If)).test
        assert isinstance(test, ast.BoolOp) and isinstance(test.op, ast.Or) and len(test.values) == 3
        a, b, c = test.values
        assert isinstance(a.ops[0], ast.Eq) and ast.unparse(a.left) == "len(data)"
        poll_len = a.comparators[0].value
        assert isinstance(b.ops[0], ast.Eq) and ast.unparse(b.left) == "data[2:4]"
        always = [b.comparators[0].value]
        assert isinstance(c, ast.BoolOp) and isinstance(c.op, ast.And) and len(c.values) == 2
        c0, c1 = c.values
        assert isinstance(c0.ops[0], ast.In) and ast.unparse(c0.left) == "data[2:4]"
        short = [e.value for e in c0.comparators[0].elts]
        assert isinstance(c1.ops[0], (ast.LtE, ast.Lt)) and ast.unparse(c1.left) == "len(data)"
        maxlen = c1.comparators[0].value - (1 if isinstance(c1.ops[0], ast.Lt) else 0)
        orelse_ok = True
        gim = (poll_len, always, short, maxlen)
    except Exception:
        gim = None
    if gim is None:
        shape.append("getinputmode: condition")
        gim = (8, [b"\x06\x8b"], [b"\x06\x01", b"\x06\x02", b"\x06\x00", b"\x06\x31"], 10)
    out.append(f"def pollLen : Nat := {gim[0]}")
    out.append("def pollAlways : List Bytes := [" + ", ".join(bts(x) for x in gim[1]) + "]")
    out.append("def pollShort : List Bytes := [" + ", ".join(bts(x) for x in gim[2]) + "]")
    out.append(f"def pollMaxLen : Nat := {gim[3]}")
    facts["getinputmode"] = [gim[0], [x.hex() for x in gim[1]], [x.hex() for x in gim[2]], gim[3]]

    if ubt.SCALROUND != 12:
        shape.append(f"SCALROUND = {ubt.SCALROUND} (model rounds to 12 decimals)")
    consts = dict(UBX_HDR=ubt.UBX_HDR.hex(), GET=ubt.GET, SET=ubt.SET, POLL=ubt.POLL, SETPOLL=ubt.SETPOLL,
                  VALNONE=ubt.VALNONE, VALCKSUM=ubt.VALCKSUM, NMEA=ubt.NMEA_PROTOCOL, UBX=ubt.UBX_PROTOCOL,
                  RTCM=ubt.RTCM3_PROTOCOL, ERR_RAISE=ubt.ERR_RAISE, ERR_LOG=ubt.ERR_LOG, ERR_IGNORE=ubt.ERR_IGNORE)
    expected = dict(UBX_HDR="b562", GET=0, SET=1, POLL=2, SETPOLL=3, VALNONE=0, VALCKSUM=1, NMEA=1, UBX=2,
                    RTCM=4, ERR_RAISE=2, ERR_LOG=1, ERR_IGNORE=0)
    for k in expected:
        if consts[k] != expected[k]:
            shape.append(f"constant {k} = {consts[k]!r} (model assumes {expected[k]!r})")
    facts["consts"] = consts

    out.append(f"""
def ctx : Ctx := {{
  get := getTable, set := setTable, poll := pollTable, msgids := msgids, classes := classes,
  variants := variants, cfgdb := cfgdb, storsize := storsize, atttype := atttype,
  readonly := readonly, ownNames := ownNames, catchType := catchType, readCatch := readCatch,
  nmeaHdr2 := nmeaHdr2, pollShort := pollShort, pollMaxLen := pollMaxLen, pollAlways := pollAlways,
  pollLen := pollLen, scalround := {ubt.SCALROUND} }}
""")

    # --- exemptions from KNOWN_FINDINGS.txt:  "known: property=C16 key=def=GET:CFG-TP;rule=W6 …"
    ex = []
    kf = os.path.join(VERIF, "KNOWN_FINDINGS.txt")
    if os.path.exists(kf):
        for line in open(kf):
            line = line.strip()
            if not line.startswith("known:"):
                continue
            f = dict(p.split("=", 1) for p in line.split()[1:] if "=" in p and not p.startswith("#"))
            key = f.get("key", "")
            kv = dict(p.split("=", 1) for p in key.split(";") if "=" in p)
            rule = kv.get("rule") or kv.get("class")
            if "def" in kv and rule and ":" in kv["def"]:
                m, d = kv["def"].split(":", 1)
                mm = {"GET": ".get", "SET": ".set", "POLL": ".poll"}.get(m)
                if mm:
                    ex.append(f"({mm}, {nm(d)}, {nm(rule)})")
    chunked("exempt", "List (Mode × Name × Name)", list(dict.fromkeys(ex)), out)
    # config-database key ids named by a known finding (`key=key=0x…;class=…`)
    exk = []
    if os.path.exists(kf):
        for line in open(kf):
            line = line.strip()
            if line.startswith("known:") and " key=key=0x" in line:
                h = line.split(" key=key=0x", 1)[1].split(";", 1)[0].split()[0]
                try:
                    exk.append(str(int(h, 16)))
                except ValueError:
                    pass
    out.append("def exemptKeyIds : List Nat := [" + ", ".join(dict.fromkeys(exk)) + "]")

    out.append("end Ubx.Gen")
    text = "\n".join(out) + "\n"

    # --- AST hashes of the modelled functions (drift indicator only)
    hashes = {}
    for mod, tree, quals in (
        (um, mtree, ["UBXMessage." + n for n in ("__init__", "_do_attributes", "_set_attribute", "_set_attribute_group",
                     "_set_attribute_single", "_set_attribute_bitfield", "_set_attribute_bits", "_set_attribute_cfgval",
                     "_do_len_checksum", "_get_dict", "_calc_num_repeats", "__str__", "__repr__", "__setattr__",
                     "__delattr__", "serialize", "identity", "config_set", "config_del", "config_poll")]),
        (ur, rtree, ["UBXReader." + n for n in ("__init__", "__next__", "read", "_parse_ubx", "_parse_nmea",
                     "_parse_rtcm3", "_read_bytes", "_read_line", "_do_error", "parse")]),
        (uh, htree, ["calc_checksum", "isvalid_checksum", "atttyp", "attsiz", "val2bytes", "bytes2val", "nomval",
                     "msgclass2bytes", "msgstr2bytes", "cfgname2key", "cfgkey2name", "protocol", "getinputmode",
                     "get_bits", "att2idx", "att2name", "itow2utc", "utc2itow", "val2sphp", "key_from_val"]),
        (uv, ast.parse(src_of(uv)), list(SELECTORS)),
    ):
        for q in quals:
            n = func_node(tree, q)
            hashes[f"{mod.__name__}.{q}"] = hashlib.sha256(ast.dump(n).encode()).hexdigest()[:16] if n else None
    import pyubx2.socket_wrapper as sw
    stree = ast.parse(src_of(sw))
    for q in ("SocketWrapper.__init__", "SocketWrapper._recv", "SocketWrapper.read", "SocketWrapper.readline"):
        n = func_node(stree, q)
        hashes[f"{sw.__name__}.{q}"] = hashlib.sha256(ast.dump(n).encode()).hexdigest()[:16] if n else None
    facts["ast_hashes"] = hashes
    facts["notes"] = notes
    facts["shape_changed"] = shape
    facts["counts"] = dict(get=len(UBX_PAYLOADS_GET), set=len(UBX_PAYLOADS_SET), poll=len(UBX_PAYLOADS_POLL),
                           msgids=len(ubt.UBX_MSGIDS), cfgdb=len(ubc.UBX_CONFIG_DATABASE))
    facts["tables_sha"] = hashlib.sha256(text.encode()).hexdigest()

    os.makedirs(os.path.dirname(OUT), exist_ok=True)
    os.makedirs(os.path.dirname(FACTS), exist_ok=True)
    old = open(OUT).read() if os.path.exists(OUT) else None
    if old != text:
        with open(OUT + ".tmp", "w") as f:
            f.write(text)
        os.replace(OUT + ".tmp", OUT)
    with open(FACTS, "w") as f:
        json.dump(facts, f, indent=1, sort_keys=True)
    print(f"translate: {len(text)} bytes, changed={old != text}, notes={len(notes)}, shape_changed={len(shape)}")
    for s in notes + shape:
        print("  note:", s)


if __name__ == "__main__":
    main()
