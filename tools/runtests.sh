#!/bin/bash
# usage: tools/runtests.sh <repo dir>   — runs the pinned test suite on that tree (baseline: 229 pass + testNMEA always fails)
d="${1:-/repo}"
cd "$d" || exit 2
full=$(PYTHONPATH="$d/src" /venv/bin/python -m pytest -q -p no:cacheprovider --timeout=900 --continue-on-collection-errors 2>&1 | tail -12)
echo "$full" | grep -E "passed|failed" | tail -1
echo "$full" | grep -E "^FAILED" | grep -v "StreamTest::testNMEA " | head
exit 0
