#!/bin/bash
# usage: tools/try_refactor.sh <patch> [checks…]   — apply a behaviour-preserving patch to /repo, run the quick checks,
# restore /repo. Any VIOLATION or non-zero exit is a false alarm.
p="$1"; shift
checks="${@:-C01 C02 C03 C04 C05 C06 C07 C08 C09 C10 C11 C12 C13 C14 C15 C16 C17 C18}"
cd /verif
git -C /repo apply "$p" || { echo "patch does not apply"; exit 2; }
trap 'git -C /repo checkout -- . ; rm -f /verif/replays/*.json' EXIT
for c in $checks; do
  out=$(./check $c quick 2>&1); rc=$?
  echo "== $(basename $p) $c exit=$rc :: $(echo "$out" | grep -c '^VIOLATION') violation line(s) :: $(echo "$out" | tail -1)"
  [ $rc -ne 0 ] && echo "$out" | grep -E "VIOLATION|Error|error" | head -5
done
