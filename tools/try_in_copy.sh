#!/bin/bash
# usage: tools/try_in_copy.sh <patch.diff> <check ids…|all>
# Runs checks against a patched *copy* of the repository (a git worktree under /tmp) from a *copy* of /verif, so that
# /repo and /verif/lean stay free for other work. Prints one line per check that does not pass cleanly.
p="$1"; shift
set -u
V=${V2:-/tmp/v2}; W=${WT:-/tmp/wt/h}
mkdir -p /tmp/wt
if [ ! -d "$W" ]; then git -C /repo worktree add -q --detach "$W" HEAD; fi
git -C "$W" checkout -q -- . ; git -C "$W" clean -fdq
rsync -a --delete --exclude replays --exclude evidence /verif/ "$V"/
mkdir -p "$V/replays" "$V/evidence"
# the copy is put back to the committed state of tracked files (half-made edits in /verif must not leak into a run)
git -C "$V" checkout -q -- . 2>/dev/null || true
( cd "$W" && git apply "$p" ) || { echo "patch does not apply"; exit 2; }
ids="$*"
[ "$ids" = all ] && ids="C01 C02 C03 C04 C05 C06 C07 C08 C09 C10 C11 C12 C13 C14 C15 C16 C17 C18"
tmp=$(mktemp -d)
cd "$V"
for c in $ids; do
  ( out=$(PYUBX2_SRC="$W/src" ./check "$c" ${TIER:-quick} 2>&1); rc=$?
    { echo "== $c exit=$rc :: $(echo "$out" | grep -c '^VIOLATION') violation line(s) :: $(echo "$out" | tail -1)"
      echo "$out" | grep "^VIOLATION" | head -2; } > "$tmp/$c.out" ) &
done
wait
cat "$tmp"/*.out | grep -v "exit=0 :: 0 violation"; echo "(clean: $(cat "$tmp"/*.out | grep -c 'exit=0 :: 0 violation'))"
rm -rf "$tmp"
git -C "$W" checkout -q -- .
